//! Controlled runtime core.
//!
//! One OS thread per virtual thread; exactly one virtual thread is *active* at any time, the others
//! sleep on a private baton.  Immediately before every visible operation a thread publishes the
//! operation it is about to perform and the strategy (a replayed prefix followed by the default
//! non-preempting policy) picks which enabled thread performs its operation next.  The effect of the
//! chosen operation is applied atomically under the runtime lock.
//!
//! The runtime keeps, per execution: the decision trace, a failure (deadlock, step cap,
//! nondeterminism while replaying, panic on the main thread), oracle breaches recorded by harness
//! code (`violation`), vacuity witnesses (`witness`), an outcome signature (`outcome`), the panic log
//! and a thread census.

use std::cell::RefCell;
use std::collections::BTreeSet;
use std::panic::Location;
use std::sync::atomic::{AtomicBool, AtomicU64, Ordering};
use std::sync::{Arc, Condvar as StdCondvar, Mutex as StdMutex};

pub type Loc = &'static Location<'static>;

#[derive(Clone, Copy, Debug, PartialEq, Eq, Hash)]
pub enum Op {
    Start,
    Lock(u32),
    TryLock(u32),
    Unlock(u32),
    CvRelease(u32, u32),
    CvReacquire(u32, u32),
    NotifyOne(u32),
    NotifyAll(u32),
    Send(u32),
    CloseSend(u32),
    Recv(u32),
    Park,
    Unpark(u32),
    Spawn,
    Join(u32),
    Probe(u32),
    Yield,
    Quiesce,
    OneshotSend,
    OneshotPoll,
    OneshotDropTx,
    OneshotDropRx,
    /// a decision that is not "which thread runs" (e.g. which waiter notify_one wakes)
    Choice,
}

impl Op {
    /// Operations that make the calling thread wait for another thread's action
    pub fn is_blocking_wait(&self) -> bool {
        matches!(self, Op::CvRelease(..) | Op::Park | Op::Recv(_) | Op::Join(_) | Op::Quiesce)
    }
}

/// One decision of an execution
#[derive(Clone, Debug)]
pub struct Point {
    /// bit i set: option i was available (thread ids for scheduling decisions, thread ids of the
    /// waiters for a notify_one victim choice)
    pub enabled: u32,
    pub chosen: u8,
    /// thread that was running when the decision was taken
    pub current: u8,
    /// the running thread could have continued (so choosing another one is a preemption)
    pub cur_enabled: bool,
    /// true for decisions that are not scheduling decisions (never cost a preemption)
    pub is_choice: bool,
    pub op: Op,
    pub loc: Option<Loc>,
    /// threads among `enabled` whose blocking wait (park, condvar wait inside the subject) can only
    /// return *spuriously* here; choosing one costs a deviation, the default policy never does
    pub spurious: u32,
}

impl Point {
    pub fn options(&self) -> impl Iterator<Item = u8> + '_ {
        (0..32u8).filter(move |i| self.enabled & (1u32 << i) != 0)
    }
    pub fn n_options(&self) -> u32 {
        self.enabled.count_ones()
    }
    pub fn is_preemption(&self) -> bool {
        !self.is_choice && self.cur_enabled && self.chosen != self.current
    }
    pub fn is_spurious(&self) -> bool {
        !self.is_choice && self.spurious & (1u32 << self.chosen) != 0
    }
    /// departures from the default policy this decision stands for (preemption, spurious wake-up)
    pub fn deviations(&self) -> usize {
        self.is_preemption() as usize + self.is_spurious() as usize
    }
    /// what choosing `alt` here instead would cost
    pub fn cost_of(&self, alt: u8) -> usize {
        if self.is_choice {
            return 0;
        }
        (self.cur_enabled && alt != self.current) as usize + (self.spurious & (1u32 << alt) != 0) as usize
    }
}

pub(crate) struct VThread {
    pub finished: bool,
    pub panicked: bool,
    pub pending: Option<Op>,
    pub pending_loc: Option<Loc>,
    pub go: Arc<Baton>,
    pub park_token: bool,
    pub cv_notified: bool,
    pub name: Option<String>,
    /// number of blocking waits (condvar wait, park, recv, join) this thread has performed
    pub blocking_waits: u64,
    /// what the harness says this thread is doing (shown in deadlock reports)
    pub note: String,
}

/// Private baton of a virtual thread: the thread runs only after its flag has been raised
pub(crate) struct Baton {
    flag: AtomicBool,
    thread: StdMutex<Option<std::thread::Thread>>,
}

impl Baton {
    fn new() -> Baton {
        Baton { flag: AtomicBool::new(false), thread: StdMutex::new(None) }
    }
}

pub(crate) struct ChanSt {
    pub len: usize,
    pub senders: usize,
    pub receiver_alive: bool,
}

#[derive(Clone, Debug)]
pub struct PanicRecord {
    pub thread: usize,
    pub thread_name: Option<String>,
    pub message: String,
    pub location: String,
}

pub(crate) struct Inner {
    pub threads: Vec<VThread>,
    pub mutexes: Vec<Option<usize>>,
    pub mutex_sites: Vec<(&'static str, u32)>,
    pub condvars: Vec<Vec<usize>>,
    pub chans: Vec<ChanSt>,
    pub current: usize,
    pub prefix: Vec<u8>,
    pub trace: Vec<Point>,
    pub failure: Option<String>,
    pub done: bool,
    pub max_steps: usize,
    pub violations: Vec<String>,
    pub witnesses: BTreeSet<&'static str>,
    pub outcome: Vec<String>,
    pub panics: Vec<PanicRecord>,
    pub census: Vec<(String, usize)>,
    pub new_try_sites: Vec<(&'static str, u32)>,
    pub lazies: Vec<(usize, unsafe fn(usize))>,
    pub events: u64,
    /// spurious wake-ups (of `park` / `Condvar::wait` calls made by the subject) still allowed in this execution
    pub spurious_left: u32,
}

pub struct Rt {
    pub(crate) inner: StdMutex<Inner>,
    done_cv: StdCondvar,
    pub exec_id: u64,
    pub(crate) elide_unlock: bool,
    pub(crate) try_sites: Vec<(String, u32)>,
}

static EXEC_COUNTER: AtomicU64 = AtomicU64::new(1);
static HOOK_INSTALLED: AtomicBool = AtomicBool::new(false);

thread_local! {
    static CTX: RefCell<Option<(Arc<Rt>, usize)>> = const { RefCell::new(None) };
}

pub(crate) fn ctx() -> (Arc<Rt>, usize) {
    CTX.with(|c| c.borrow().clone()).expect("vsched primitive used outside a controlled execution")
}

pub(crate) fn try_ctx() -> Option<(Arc<Rt>, usize)> {
    CTX.try_with(|c| c.borrow().clone()).ok().flatten()
}

pub fn exec_id() -> u64 {
    ctx().0.exec_id
}

/// id of the calling virtual thread
pub fn me() -> usize {
    ctx().1
}

/// Logical clock: number of decisions taken so far in this execution
pub fn now() -> usize {
    let (rt, _) = ctx();
    let g = rt.inner.lock().unwrap();
    g.trace.len()
}

/// Strictly increasing event counter (only one virtual thread runs at a time, so this is a total
/// order of harness events consistent with real time)
pub fn tick() -> u64 {
    let (rt, _) = ctx();
    let mut g = rt.inner.lock().unwrap();
    g.events += 1;
    g.events
}

/// Records an oracle breach without disturbing the subject (no panic)
pub fn violation(msg: String) {
    let (rt, _) = ctx();
    let mut g = rt.inner.lock().unwrap();
    if g.violations.len() < 16 {
        g.violations.push(msg);
    }
}

/// Records that an interesting situation was reached in this execution (vacuity witness)
pub fn witness(w: &'static str) {
    let (rt, _) = ctx();
    rt.inner.lock().unwrap().witnesses.insert(w);
}

/// Appends to this execution's outcome signature (what the program observably did)
pub fn outcome(s: String) {
    let (rt, _) = ctx();
    rt.inner.lock().unwrap().outcome.push(s);
}

/// Number of blocking waits the calling thread has performed so far
pub fn blocking_waits() -> u64 {
    let (rt, me) = ctx();
    let g = rt.inner.lock().unwrap();
    g.threads[me].blocking_waits
}

/// Name of the calling virtual thread, if it was given one
pub fn current_thread_name() -> Option<String> {
    let (rt, me) = ctx();
    let g = rt.inner.lock().unwrap();
    g.threads[me].name.clone()
}

/// Number of live (unfinished) threads with the given name
pub fn live_threads_named(name: &str) -> usize {
    let (rt, _) = ctx();
    let g = rt.inner.lock().unwrap();
    g.threads.iter().filter(|t| !t.finished && t.name.as_deref() == Some(name)).count()
}

/// Number of threads with the given name ever created in this execution
pub fn created_threads_named(name: &str) -> usize {
    let (rt, _) = ctx();
    let g = rt.inner.lock().unwrap();
    g.threads.iter().filter(|t| t.name.as_deref() == Some(name)).count()
}

/// From now on, creating a thread named `name` that makes more than `limit` of them live is a violation
pub fn set_census_limit(name: &str, limit: usize) {
    let (rt, _) = ctx();
    let mut g = rt.inner.lock().unwrap();
    if let Some(e) = g.census.iter_mut().find(|e| e.0 == name) {
        e.1 = limit;
    } else {
        g.census.push((name.to_string(), limit));
    }
}

/// Says what the calling thread is doing from now on (appears in deadlock reports); returns the previous note
pub fn note(s: &str) -> String {
    let (rt, me) = ctx();
    let mut g = rt.inner.lock().unwrap();
    std::mem::replace(&mut g.threads[me].note, s.to_string())
}

/// Panics recorded so far in this execution
pub fn panics() -> Vec<PanicRecord> {
    let (rt, _) = ctx();
    let g = rt.inner.lock().unwrap();
    g.panics.clone()
}

/// Describes where every unfinished thread other than the caller currently is
pub fn blocked_report() -> Vec<String> {
    let (rt, me) = ctx();
    let g = rt.inner.lock().unwrap();
    g.blocked_list(Some(me))
}

fn short_loc(l: Option<Loc>) -> String {
    match l {
        Some(l) => {
            let f = l.file();
            let f = f.rsplit("/src/").next().unwrap_or(f);
            format!("{}:{}", f, l.line())
        }
        None => "?".into(),
    }
}

impl Inner {
    fn op_enabled(&self, t: usize, op: Op) -> bool {
        match op {
            Op::Lock(m) => self.mutexes[m as usize].is_none(),
            Op::CvReacquire(_, m) => self.threads[t].cv_notified && self.mutexes[m as usize].is_none(),
            Op::Recv(c) => self.chans[c as usize].len > 0 || self.chans[c as usize].senders == 0,
            Op::Park => self.threads[t].park_token,
            Op::Join(j) => self.threads[j as usize].finished,
            Op::Quiesce => false,
            _ => true,
        }
    }

    /// a blocking wait of the subject that std allows to return spuriously
    fn op_spurious(&self, t: usize, op: Op) -> bool {
        let in_subject = self.threads[t].pending_loc.map(|l| l.file().starts_with("/repo/")).unwrap_or(false);
        in_subject
            && match op {
                Op::Park => !self.threads[t].park_token,
                Op::CvReacquire(_, m) => !self.threads[t].cv_notified && self.mutexes[m as usize].is_none(),
                _ => false,
            }
    }

    /// (threads whose pending operation is enabled, threads that could only continue through a spurious wake-up)
    fn enabled_mask(&self) -> (u32, u32) {
        let mut e = 0u32;
        let mut sp = 0u32;
        let mut quiescers = 0u32;
        for (t, th) in self.threads.iter().enumerate() {
            if th.finished {
                continue;
            }
            if let Some(op) = th.pending {
                if op == Op::Quiesce {
                    quiescers |= 1 << t;
                } else if self.op_enabled(t, op) {
                    e |= 1 << t;
                } else if self.spurious_left > 0 && self.op_spurious(t, op) {
                    sp |= 1 << t;
                }
            }
        }
        if e == 0 {
            (quiescers, if quiescers != 0 { sp } else { 0 })
        } else {
            (e, sp)
        }
    }

    pub(crate) fn blocked_list(&self, except: Option<usize>) -> Vec<String> {
        self.threads
            .iter()
            .enumerate()
            .filter(|(i, t)| !t.finished && Some(*i) != except)
            .map(|(i, t)| {
                let extra = match t.pending {
                    Some(Op::Lock(m)) => format!(" held-by=t{}", self.mutexes[m as usize].map(|x| x as i64).unwrap_or(-1)),
                    _ => String::new(),
                };
                format!("t{}[{}|{}] {:?}@{}{}", i, t.name.as_deref().unwrap_or("-"), t.note, t.pending.unwrap_or(Op::Start), short_loc(t.pending_loc), extra)
            })
            .collect()
    }

    /// Takes a decision among `options` (bit mask).  `sched`: this is a scheduling decision for
    /// thread `me`.  Returns None if the execution is over.
    fn decide(&mut self, me: usize, enabled: u32, spurious: u32, is_choice: bool, op_of: impl Fn(&Inner, usize) -> (Op, Option<Loc>)) -> Option<usize> {
        let options = enabled | spurious;
        let step = self.trace.len();
        if step >= self.max_steps {
            // livelock classification: was a single thread the only enabled one for the last 1000 steps?
            let tail = &self.trace[self.trace.len().saturating_sub(1000)..];
            let lone = tail.iter().all(|p| p.n_options() == 1 && p.chosen == tail[0].chosen);
            self.failure = Some(format!(
                "MAXSTEPS {} {}",
                step,
                if lone { format!("LIVELOCK thread t{} is the only enabled thread and never finishes: {}", tail[0].chosen, self.blocked_list(None).join(", ")) } else { "INCONCLUSIVE".into() }
            ));
            return None;
        }
        let cur_enabled = !is_choice && enabled & (1 << me) != 0;
        let chosen = if step < self.prefix.len() {
            let c = self.prefix[step] as usize;
            if c >= 32 || options & (1 << c) == 0 {
                self.failure = Some(format!("NONDETERMINISM step {} wanted {} options {:#b}", step, c, options));
                return None;
            }
            c
        } else if cur_enabled {
            me
        } else {
            enabled.trailing_zeros() as usize
        };
        let (op, loc) = op_of(self, chosen);
        self.trace.push(Point { enabled: options, chosen: chosen as u8, current: me as u8, cur_enabled, is_choice, op, loc, spurious });
        Some(chosen)
    }

    /// Picks the next thread to run. Returns None if execution is over (done or failed)
    fn choose(&mut self, me: usize) -> Option<usize> {
        if self.failure.is_some() {
            return None;
        }
        let (enabled, spurious) = self.enabled_mask();
        if enabled == 0 {
            if self.threads.iter().all(|t| t.finished) {
                self.done = true;
            } else {
                self.failure = Some(format!("DEADLOCK blocked=[{}]", self.blocked_list(None).join(", ")));
            }
            return None;
        }
        let chosen = self.decide(me, enabled, spurious, false, |g, c| (g.threads[c].pending.unwrap(), g.threads[c].pending_loc))?;
        self.current = chosen;
        let op = self.threads[chosen].pending.unwrap();
        if spurious & (1 << chosen) != 0 {
            // the wait returns although nobody woke it
            self.spurious_left -= 1;
            match op {
                Op::Park => self.threads[chosen].park_token = true,
                Op::CvReacquire(cv, _) => {
                    self.threads[chosen].cv_notified = true;
                    self.condvars[cv as usize].retain(|&w| w != chosen);
                }
                _ => unreachable!(),
            }
        }
        if op.is_blocking_wait() {
            self.threads[chosen].blocking_waits += 1;
        }
        Some(chosen)
    }

    /// A non-scheduling decision taken by the running thread (free: never a preemption)
    pub(crate) fn choice(&mut self, me: usize, options: u32) -> usize {
        if self.failure.is_some() || options == 0 {
            return options.trailing_zeros() as usize;
        }
        if options.count_ones() == 1 {
            return options.trailing_zeros() as usize;
        }
        match self.decide(me, options, 0, true, |_, _| (Op::Choice, None)) {
            Some(c) => c,
            None => options.trailing_zeros() as usize,
        }
    }
}

impl Rt {
    fn wake(&self, go: &Arc<Baton>) {
        go.flag.store(true, Ordering::SeqCst);
        if let Some(t) = go.thread.lock().unwrap().as_ref() {
            t.unpark();
        }
    }

    fn wait_go(&self, go: &Arc<Baton>) {
        {
            let mut t = go.thread.lock().unwrap();
            if t.is_none() {
                *t = Some(std::thread::current());
            }
        }
        let spin = SPIN.load(Ordering::Relaxed);
        let mut n = 0;
        while !go.flag.swap(false, Ordering::SeqCst) {
            if n < spin {
                n += 1;
                std::hint::spin_loop();
            } else {
                std::thread::park();
            }
        }
    }

    fn finish_if_over(&self, g: &Inner) {
        if g.done || g.failure.is_some() {
            self.done_cv.notify_all();
        }
    }

    /// Declares the op the current thread is about to perform, lets the strategy pick who runs,
    /// and returns (holding no lock) once this thread has been chosen with its op enabled.
    /// `apply` runs under the runtime lock right after the thread has been chosen.
    pub(crate) fn sched_point<R>(self: &Arc<Self>, me: usize, op: Op, loc: Option<Loc>, apply: impl FnOnce(&mut Inner) -> R) -> R {
        let (next, my_go) = {
            let mut g = self.inner.lock().unwrap();
            g.threads[me].pending = Some(op);
            g.threads[me].pending_loc = loc;
            let next = g.choose(me);
            let my_go = g.threads[me].go.clone();
            match next {
                Some(n) if n == me => {
                    g.threads[me].pending = None;
                    return apply(&mut g);
                }
                Some(n) => (Some(g.threads[n].go.clone()), my_go),
                None => {
                    self.finish_if_over(&g);
                    (None, my_go)
                }
            }
        };
        if let Some(n) = next {
            self.wake(&n);
        }
        // wait for our turn (forever, if the execution failed: the thread is abandoned)
        self.wait_go(&my_go);
        let mut g = self.inner.lock().unwrap();
        g.threads[me].pending = None;
        apply(&mut g)
    }

    pub(crate) fn thread_exit(self: &Arc<Self>, me: usize, panicked: bool) {
        let next = {
            let mut g = self.inner.lock().unwrap();
            g.threads[me].finished = true;
            g.threads[me].panicked = panicked;
            g.threads[me].pending = None;
            let next = g.choose(me);
            match next {
                Some(n) => Some(g.threads[n].go.clone()),
                None => {
                    self.finish_if_over(&g);
                    None
                }
            }
        };
        if let Some(n) = next {
            self.wake(&n);
        }
    }

    pub(crate) fn register_thread(&self, g: &mut Inner, name: Option<String>) -> usize {
        let _ = self;
        if g.threads.len() >= 30 {
            if g.failure.is_none() {
                g.failure = Some("TOO-MANY-THREADS (30)".into());
            }
        }
        g.threads.push(VThread {
            finished: false,
            panicked: false,
            pending: Some(Op::Start),
            pending_loc: None,
            go: Arc::new(Baton::new()),
            park_token: false,
            cv_notified: false,
            name: name.clone(),
            blocking_waits: 0,
            note: String::new(),
        });
        if let Some(name) = name {
            if let Some(limit) = g.census.iter().find(|e| e.0 == name).map(|e| e.1) {
                let live = g.threads.iter().filter(|t| !t.finished && t.name.as_deref() == Some(name.as_str())).count();
                if live > limit && g.violations.len() < 16 {
                    g.violations.push(format!("CENSUS {} live threads named '{}' exceed the configured maximum {}", live, name, limit));
                }
            }
        }
        g.threads.len() - 1
    }

    pub(crate) fn start_os_thread<F: FnOnce() + Send + 'static>(self: &Arc<Self>, tid: usize, f: F) {
        let rt = self.clone();
        let go = self.inner.lock().unwrap().threads[tid].go.clone();
        run_on_carrier(Box::new(move || {
            CTX.with(|c| *c.borrow_mut() = Some((rt.clone(), tid)));
            rt.wait_go(&go);
            {
                let mut g = rt.inner.lock().unwrap();
                g.threads[tid].pending = None;
            }
            let r = std::panic::catch_unwind(std::panic::AssertUnwindSafe(f));
            CTX.with(|c| *c.borrow_mut() = None);
            rt.thread_exit(tid, r.is_err());
        }));
    }
}

type CarrierJob = Box<dyn FnOnce() + Send + 'static>;

/// Idle carrier OS threads, reused across executions (a carrier stuck in an abandoned execution is
/// simply never returned)
static CARRIERS: StdMutex<Vec<std::sync::mpsc::Sender<CarrierJob>>> = StdMutex::new(Vec::new());

/// no carrier reuse: every virtual thread runs on an OS thread of its own, which ends with it
pub static FRESH_THREADS: AtomicBool = AtomicBool::new(false);

fn run_on_carrier(job: CarrierJob) {
    if FRESH_THREADS.load(Ordering::SeqCst) {
        std::thread::Builder::new().stack_size(STACK_SIZE.load(Ordering::Relaxed) as usize).spawn(job).expect("OS thread creation");
        return;
    }
    let idle = CARRIERS.lock().unwrap().pop();
    let job = match idle {
        Some(tx) => match tx.send(job) {
            Ok(()) => return,
            Err(e) => e.0,
        },
        None => job,
    };
    let (tx, rx) = std::sync::mpsc::channel::<CarrierJob>();
    tx.send(job).unwrap();
    std::thread::Builder::new()
        .stack_size(STACK_SIZE.load(Ordering::Relaxed) as usize)
        .spawn(move || {
            while let Ok(job) = rx.recv() {
                job();
                CARRIERS.lock().unwrap().push(tx.clone());
            }
        })
        .expect("OS thread creation");
}

pub static STACK_SIZE: AtomicU64 = AtomicU64::new(512 * 1024);
pub static SPIN: AtomicU64 = AtomicU64::new(1000);

pub struct Outcome {
    pub trace: Vec<Point>,
    /// deadlock / step cap / nondeterminism / main thread panic
    pub failure: Option<String>,
    /// oracle breaches recorded by harness code
    pub violations: Vec<String>,
    pub witnesses: BTreeSet<&'static str>,
    pub outcome: Vec<String>,
    pub panics: Vec<PanicRecord>,
    pub new_try_sites: Vec<(&'static str, u32)>,
    pub threads: usize,
}

pub struct ExecConfig {
    pub max_steps: usize,
    pub elide_unlock: bool,
    pub try_sites: Vec<(String, u32)>,
    /// number of spurious wake-ups of the subject's `park` / `Condvar::wait` calls the strategy may inject
    pub spurious: u32,
}

fn install_hook() {
    if HOOK_INSTALLED.swap(true, Ordering::SeqCst) {
        return;
    }
    let default = std::panic::take_hook();
    std::panic::set_hook(Box::new(move |info| {
        if let Some((rt, me)) = try_ctx() {
            let message = if let Some(s) = info.payload().downcast_ref::<String>() {
                s.clone()
            } else if let Some(s) = info.payload().downcast_ref::<&str>() {
                s.to_string()
            } else {
                "<non-string panic payload>".into()
            };
            let location = info.location().map(|l| format!("{}:{}", l.file().rsplit("/src/").next().unwrap_or(l.file()), l.line())).unwrap_or_default();
            if let Ok(mut g) = rt.inner.lock() {
                let thread_name = g.threads[me].name.clone();
                if g.panics.len() < 32 {
                    g.panics.push(PanicRecord { thread: me, thread_name, message, location });
                }
            }
        } else {
            default(info);
        }
    }));
}

pub fn panic_message(e: &(dyn std::any::Any + Send)) -> String {
    if let Some(s) = e.downcast_ref::<String>() {
        s.clone()
    } else if let Some(s) = e.downcast_ref::<&str>() {
        s.to_string()
    } else {
        "<non-string panic payload>".into()
    }
}

/// Runs one execution of `body` following `prefix` then the default (non-preempting) policy
pub fn run_execution<F: FnOnce() + Send + 'static>(prefix: &[u8], cfg: &ExecConfig, body: F) -> Outcome {
    install_hook();
    let rt = Arc::new(Rt {
        inner: StdMutex::new(Inner {
            threads: vec![],
            mutexes: vec![],
            mutex_sites: vec![],
            condvars: vec![],
            chans: vec![],
            current: 0,
            prefix: prefix.to_vec(),
            trace: Vec::with_capacity(256),
            failure: None,
            done: false,
            max_steps: cfg.max_steps,
            violations: vec![],
            witnesses: BTreeSet::new(),
            outcome: vec![],
            panics: vec![],
            census: vec![],
            new_try_sites: vec![],
            lazies: vec![],
            events: 0,
            spurious_left: cfg.spurious,
        }),
        done_cv: StdCondvar::new(),
        exec_id: EXEC_COUNTER.fetch_add(1, Ordering::Relaxed),
        elide_unlock: cfg.elide_unlock,
        try_sites: cfg.try_sites.clone(),
    });
    let tid = {
        let mut g = rt.inner.lock().unwrap();
        rt.register_thread(&mut g, Some("main".into()))
    };
    let rt2 = rt.clone();
    rt.start_os_thread(tid, move || {
        let r = std::panic::catch_unwind(std::panic::AssertUnwindSafe(body));
        match r {
            Err(e) => {
                let msg = panic_message(&*e);
                let mut g = rt2.inner.lock().unwrap();
                if g.failure.is_none() {
                    g.failure = Some(format!("MAIN-PANIC {}", msg));
                }
            }
            Ok(()) => {
                // drop this execution's lazily created globals, newest first, on the main virtual thread
                loop {
                    let next = rt2.inner.lock().unwrap().lazies.pop();
                    match next {
                        Some((ptr, dropper)) => unsafe { dropper(ptr) },
                        None => break,
                    }
                }
            }
        }
    });
    // kick off main
    {
        let go = rt.inner.lock().unwrap().threads[tid].go.clone();
        rt.wake(&go);
    }
    let mut g = rt.inner.lock().unwrap();
    while !g.done && g.failure.is_none() {
        g = rt.done_cv.wait(g).unwrap();
    }
    Outcome {
        trace: std::mem::take(&mut g.trace),
        failure: g.failure.clone(),
        violations: g.violations.clone(),
        witnesses: g.witnesses.clone(),
        outcome: g.outcome.clone(),
        panics: g.panics.clone(),
        new_try_sites: g.new_try_sites.clone(),
        threads: g.threads.len(),
    }
}

/// Blocks the caller until no other thread can make progress
#[track_caller]
pub fn quiesce() {
    let (rt, me) = ctx();
    rt.sched_point(me, Op::Quiesce, Some(Location::caller()), |_| ());
}

/// A free (non-preemption) decision among `n` alternatives taken by harness code
pub fn choose(n: usize) -> usize {
    assert!(n >= 1 && n <= 32);
    let (rt, me) = ctx();
    let mut g = rt.inner.lock().unwrap();
    let mask = if n == 32 { u32::MAX } else { (1u32 << n) - 1 };
    g.choice(me, mask)
}

pub fn describe_point(i: usize, p: &Point) -> String {
    format!(
        "{:4} t{} {:?} @{} options={:?}{}",
        i,
        p.chosen,
        p.op,
        short_loc(p.loc),
        p.options().collect::<Vec<_>>(),
        if p.is_spurious() { "  <-- SPURIOUS WAKE-UP" } else if p.is_preemption() { "  <-- PREEMPT" } else if p.is_choice { "  (choice)" } else { "" }
    )
}
