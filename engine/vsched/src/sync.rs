//! API-compatible subset of std::sync driven by the controlled runtime

use crate::rt::{ctx, Op};
use std::cell::UnsafeCell;
use std::ops::{Deref, DerefMut};
use std::panic::Location;
use std::sync::atomic::{AtomicBool, Ordering};

pub use std::sync::{Arc, LockResult, PoisonError, TryLockError, TryLockResult, Weak};

pub struct Mutex<T: ?Sized> {
    id: u32,
    exec: u64,
    /// the unlock of this mutex is not a scheduling point (see DESIGN 2.4)
    elide: bool,
    poisoned: AtomicBool,
    data: UnsafeCell<T>,
}

unsafe impl<T: ?Sized + Send> Send for Mutex<T> {}
unsafe impl<T: ?Sized + Send> Sync for Mutex<T> {}

pub struct MutexGuard<'a, T: ?Sized> {
    m: &'a Mutex<T>,
    was_panicking: bool,
}

// as std: a guard may be shared if T may
unsafe impl<T: ?Sized + Sync> Sync for MutexGuard<'_, T> {}

impl<T> Mutex<T> {
    #[track_caller]
    pub fn new(t: T) -> Mutex<T> {
        let (rt, _) = ctx();
        let loc = Location::caller();
        let site = (loc.file(), loc.line());
        let elide = rt.elide_unlock && !rt.try_sites.iter().any(|s| s.0 == site.0 && s.1 == site.1);
        let id = {
            let mut g = rt.inner.lock().unwrap();
            g.mutex_sites.push(site);
            g.mutexes.push(None);
            (g.mutexes.len() - 1) as u32
        };
        Mutex { id, exec: rt.exec_id, elide, poisoned: AtomicBool::new(false), data: UnsafeCell::new(t) }
    }
}

impl<T: ?Sized> Mutex<T> {
    fn guard(&self) -> LockResult<MutexGuard<'_, T>> {
        let g = MutexGuard { m: self, was_panicking: std::thread::panicking() };
        if self.poisoned.load(Ordering::Relaxed) {
            Err(PoisonError::new(g))
        } else {
            Ok(g)
        }
    }

    #[track_caller]
    pub fn lock(&self) -> LockResult<MutexGuard<'_, T>> {
        let (rt, me) = ctx();
        assert_eq!(rt.exec_id, self.exec, "vsched mutex used in a different execution than the one that created it");
        let id = self.id;
        rt.sched_point(me, Op::Lock(id), Some(Location::caller()), |g| {
            debug_assert!(g.mutexes[id as usize].is_none());
            g.mutexes[id as usize] = Some(me);
        });
        self.guard()
    }

    #[track_caller]
    pub fn try_lock(&self) -> TryLockResult<MutexGuard<'_, T>> {
        let (rt, me) = ctx();
        assert_eq!(rt.exec_id, self.exec, "vsched mutex used in a different execution than the one that created it");
        let id = self.id;
        let elided = self.elide;
        let ok = rt.sched_point(me, Op::TryLock(id), Some(Location::caller()), |g| {
            if elided {
                // a try_lock on a mutex whose unlock points were elided: the reduction's premise is
                // broken for this creation site; report it so that the exploration restarts without it
                let site = g.mutex_sites[id as usize];
                if !g.new_try_sites.contains(&site) {
                    g.new_try_sites.push(site);
                }
            }
            if g.mutexes[id as usize].is_none() {
                g.mutexes[id as usize] = Some(me);
                true
            } else {
                false
            }
        });
        if ok {
            match self.guard() {
                Ok(g) => Ok(g),
                Err(p) => Err(TryLockError::Poisoned(p)),
            }
        } else {
            Err(TryLockError::WouldBlock)
        }
    }

    pub fn is_poisoned(&self) -> bool {
        self.poisoned.load(Ordering::Relaxed)
    }
}

impl<'a, T: ?Sized> Drop for MutexGuard<'a, T> {
    fn drop(&mut self) {
        if !self.was_panicking && std::thread::panicking() {
            self.m.poisoned.store(true, Ordering::Relaxed);
        }
        let (rt, me) = ctx();
        let id = self.m.id;
        if self.m.elide {
            let mut g = rt.inner.lock().unwrap();
            g.mutexes[id as usize] = None;
            return;
        }
        rt.sched_point(me, Op::Unlock(id), None, |g| {
            g.mutexes[id as usize] = None;
        });
    }
}

impl<'a, T: ?Sized> Deref for MutexGuard<'a, T> {
    type Target = T;
    fn deref(&self) -> &T {
        unsafe { &*self.m.data.get() }
    }
}

impl<'a, T: ?Sized> DerefMut for MutexGuard<'a, T> {
    fn deref_mut(&mut self) -> &mut T {
        unsafe { &mut *self.m.data.get() }
    }
}

pub struct Condvar {
    id: u32,
}

impl Condvar {
    pub fn new() -> Condvar {
        let (rt, _) = ctx();
        let id = {
            let mut g = rt.inner.lock().unwrap();
            g.condvars.push(vec![]);
            (g.condvars.len() - 1) as u32
        };
        Condvar { id }
    }

    #[track_caller]
    pub fn wait<'a, T>(&self, guard: MutexGuard<'a, T>) -> LockResult<MutexGuard<'a, T>> {
        let (rt, me) = ctx();
        let loc = Location::caller();
        let m = guard.m;
        let (cv, mid) = (self.id, m.id);
        // release + enqueue atomically
        std::mem::forget(guard);
        rt.sched_point(me, Op::CvRelease(cv, mid), Some(loc), |g| {
            g.mutexes[mid as usize] = None;
            g.condvars[cv as usize].push(me);
            g.threads[me].cv_notified = false;
        });
        rt.sched_point(me, Op::CvReacquire(cv, mid), Some(loc), |g| {
            g.mutexes[mid as usize] = Some(me);
            g.threads[me].cv_notified = false;
        });
        m.guard()
    }

    #[track_caller]
    pub fn notify_one(&self) {
        let (rt, me) = ctx();
        let cv = self.id as usize;
        rt.sched_point(me, Op::NotifyOne(self.id), Some(Location::caller()), |g| {
            let n = g.condvars[cv].len();
            if n == 1 {
                let t = g.condvars[cv].remove(0);
                g.threads[t].cv_notified = true;
            } else if n > 1 {
                // which waiter is woken is a (free) decision of the explorer
                let mut mask = 0u32;
                for &t in &g.condvars[cv] {
                    mask |= 1 << t;
                }
                let t = g.choice(me, mask);
                g.condvars[cv].retain(|&w| w != t);
                g.threads[t].cv_notified = true;
            }
        });
    }

    #[track_caller]
    pub fn notify_all(&self) {
        let (rt, me) = ctx();
        let cv = self.id as usize;
        rt.sched_point(me, Op::NotifyAll(self.id), Some(Location::caller()), |g| {
            let ws = std::mem::take(&mut g.condvars[cv]);
            for t in ws {
                g.threads[t].cv_notified = true;
            }
        });
    }
}

impl Default for Condvar {
    fn default() -> Self {
        Condvar::new()
    }
}

pub mod mpsc {
    use crate::rt::{ctx, ChanSt, Op};
    use std::collections::VecDeque;
    use std::panic::Location;
    pub use std::sync::mpsc::{RecvError, SendError};
    use std::sync::{Arc, Mutex as StdMutex};

    struct Chan<T> {
        id: u32,
        q: StdMutex<VecDeque<T>>,
    }

    pub struct Sender<T> {
        c: Arc<Chan<T>>,
    }
    pub struct Receiver<T> {
        c: Arc<Chan<T>>,
    }

    pub fn channel<T>() -> (Sender<T>, Receiver<T>) {
        let (rt, _) = ctx();
        let id = {
            let mut g = rt.inner.lock().unwrap();
            g.chans.push(ChanSt { len: 0, senders: 1, receiver_alive: true });
            (g.chans.len() - 1) as u32
        };
        let c = Arc::new(Chan { id, q: StdMutex::new(VecDeque::new()) });
        (Sender { c: c.clone() }, Receiver { c })
    }

    impl<T> Sender<T> {
        #[track_caller]
        pub fn send(&self, t: T) -> Result<(), SendError<T>> {
            let (rt, me) = ctx();
            let id = self.c.id as usize;
            // the message is made visible inside the runtime step, so a receiver that is enabled by
            // this send always finds it
            let mut slot = Some(t);
            let q = &self.c.q;
            rt.sched_point(me, Op::Send(self.c.id), Some(Location::caller()), |g| {
                if g.chans[id].receiver_alive {
                    g.chans[id].len += 1;
                    q.lock().unwrap().push_back(slot.take().unwrap());
                }
            });
            match slot {
                None => Ok(()),
                Some(t) => Err(SendError(t)),
            }
        }
    }

    impl<T> Clone for Sender<T> {
        fn clone(&self) -> Self {
            let (rt, _) = ctx();
            rt.inner.lock().unwrap().chans[self.c.id as usize].senders += 1;
            Sender { c: self.c.clone() }
        }
    }

    impl<T> Drop for Sender<T> {
        fn drop(&mut self) {
            let (rt, me) = ctx();
            let id = self.c.id as usize;
            rt.sched_point(me, Op::CloseSend(self.c.id), None, |g| {
                g.chans[id].senders -= 1;
            });
        }
    }

    impl<T> Receiver<T> {
        #[track_caller]
        pub fn recv(&self) -> Result<T, RecvError> {
            let (rt, me) = ctx();
            let id = self.c.id as usize;
            let q = &self.c.q;
            let got = rt.sched_point(me, Op::Recv(self.c.id), Some(Location::caller()), |g| {
                if g.chans[id].len > 0 {
                    g.chans[id].len -= 1;
                    q.lock().unwrap().pop_front()
                } else {
                    None
                }
            });
            got.ok_or(RecvError)
        }
    }

    impl<T> Drop for Receiver<T> {
        fn drop(&mut self) {
            let (rt, _) = ctx();
            rt.inner.lock().unwrap().chans[self.c.id as usize].receiver_alive = false;
            // drop queued messages outside the runtime lock
            let drained: Vec<T> = self.c.q.lock().unwrap().drain(..).collect();
            drop(drained);
        }
    }
}
