//! `vsched`: a controlled runtime with the API of the parts of std::sync / std::thread /
//! futures::channel::oneshot / lazy_static that `desync` uses.  See /verif/DESIGN.md section 2.
pub mod rt;
pub mod sync;
pub mod thread;

use std::ops::Deref;
use std::sync::Mutex as StdMutex;

/// Per-execution lazily initialised static: every execution gets a fresh value, dropped on the
/// main virtual thread when the execution ends cleanly
pub struct Lazy<T: 'static> {
    init: fn() -> T,
    cell: StdMutex<(u64, usize)>,
}

impl<T: 'static> Lazy<T> {
    pub const fn new(init: fn() -> T) -> Lazy<T> {
        Lazy { init, cell: StdMutex::new((0, 0)) }
    }
}

unsafe impl<T: Sync> Sync for Lazy<T> {}

unsafe fn drop_boxed<T>(p: usize) {
    drop(Box::from_raw(p as *mut T));
}

impl<T: 'static> Deref for Lazy<T> {
    type Target = T;
    fn deref(&self) -> &T {
        let (rt, _) = rt::ctx();
        let exec = rt.exec_id;
        {
            let c = self.cell.lock().unwrap();
            if c.0 == exec {
                return unsafe { &*(c.1 as *const T) };
            }
        }
        // only one virtual thread runs at a time, so no double initialisation can happen here
        let p = Box::into_raw(Box::new((self.init)())) as usize;
        rt.inner.lock().unwrap().lazies.push((p, drop_boxed::<T>));
        let mut c = self.cell.lock().unwrap();
        *c = (exec, p);
        unsafe { &*(p as *const T) }
    }
}

#[macro_export]
macro_rules! lazy_static {
    ($(#[$attr:meta])* static ref $N:ident : $T:ty = $e:expr; $($t:tt)*) => {
        $(#[$attr])* static $N: $crate::Lazy<$T> = $crate::Lazy::new(|| $e);
        $crate::lazy_static!($($t)*);
    };
    () => {};
}

/// Wrapper around the real futures-rs oneshot channel that adds a scheduling point before each operation
pub mod oneshot {
    use crate::rt::{ctx, Op};
    use futures::channel::oneshot as real;
    pub use futures::channel::oneshot::Canceled;
    use std::future::Future;
    use std::panic::Location;
    use std::pin::Pin;
    use std::task::{Context, Poll};

    pub struct Sender<T>(Option<real::Sender<T>>);
    pub struct Receiver<T>(real::Receiver<T>);

    fn point(op: Op, loc: Option<&'static Location<'static>>) {
        let (rt, me) = ctx();
        rt.sched_point(me, op, loc, |_| ());
    }

    pub fn channel<T>() -> (Sender<T>, Receiver<T>) {
        let (s, r) = real::channel();
        (Sender(Some(s)), Receiver(r))
    }
    impl<T> Sender<T> {
        #[track_caller]
        pub fn send(mut self, t: T) -> Result<(), T> {
            point(Op::OneshotSend, Some(Location::caller()));
            self.0.take().unwrap().send(t)
        }
        pub fn is_canceled(&self) -> bool {
            self.0.as_ref().map(|s| s.is_canceled()).unwrap_or(true)
        }
    }
    impl<T> Drop for Sender<T> {
        fn drop(&mut self) {
            if let Some(s) = self.0.take() {
                point(Op::OneshotDropTx, None);
                drop(s);
            }
        }
    }
    impl<T> Future for Receiver<T> {
        type Output = Result<T, Canceled>;
        fn poll(mut self: Pin<&mut Self>, cx: &mut Context<'_>) -> Poll<Self::Output> {
            point(Op::OneshotPoll, None);
            Pin::new(&mut self.0).poll(cx)
        }
    }
    impl<T> Drop for Receiver<T> {
        fn drop(&mut self) {
            point(Op::OneshotDropRx, None);
        }
    }
}

/// Minimal single-future executor on the controlled runtime (park / unpark)
pub mod executor {
    use crate::thread;
    use futures::task::{waker, ArcWake};
    use std::future::Future;
    use std::sync::Arc;
    use std::task::{Context, Poll};

    struct ThreadWaker(thread::Thread);
    impl ArcWake for ThreadWaker {
        fn wake_by_ref(a: &Arc<Self>) {
            a.0.unpark();
        }
    }

    pub fn block_on<F: Future>(f: F) -> F::Output {
        let mut f = Box::pin(f);
        let w = waker(Arc::new(ThreadWaker(thread::current())));
        let mut cx = Context::from_waker(&w);
        loop {
            if let Poll::Ready(v) = f.as_mut().poll(&mut cx) {
                return v;
            }
            thread::park();
        }
    }
}
