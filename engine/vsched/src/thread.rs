//! API-compatible subset of std::thread driven by the controlled runtime

use crate::rt::{ctx, Op};
use std::panic::Location;
use std::sync::{Arc, Mutex as StdMutex};

pub use std::thread::{panicking, Result};

#[derive(Clone, Debug)]
pub struct Thread {
    tid: usize,
}

impl Thread {
    #[track_caller]
    pub fn unpark(&self) {
        let (rt, me) = ctx();
        let t = self.tid;
        rt.sched_point(me, Op::Unpark(t as u32), Some(Location::caller()), |g| {
            g.threads[t].park_token = true;
        });
    }
    pub fn id(&self) -> usize {
        self.tid
    }
}

pub fn current() -> Thread {
    Thread { tid: ctx().1 }
}

#[track_caller]
pub fn park() {
    let (rt, me) = ctx();
    rt.sched_point(me, Op::Park, Some(Location::caller()), |g| {
        g.threads[me].park_token = false;
    });
}

#[track_caller]
pub fn yield_now() {
    let (rt, me) = ctx();
    rt.sched_point(me, Op::Yield, Some(Location::caller()), |_| ());
}

pub struct JoinHandle<T> {
    thread: Thread,
    result: Arc<StdMutex<Option<Result<T>>>>,
}

impl<T> JoinHandle<T> {
    #[track_caller]
    pub fn join(self) -> Result<T> {
        let (rt, me) = ctx();
        let t = self.thread.tid;
        rt.sched_point(me, Op::Join(t as u32), Some(Location::caller()), |_| ());
        self.result.lock().unwrap().take().expect("joined thread has a result")
    }
    #[track_caller]
    pub fn is_finished(&self) -> bool {
        let (rt, me) = ctx();
        let t = self.thread.tid;
        rt.sched_point(me, Op::Probe(t as u32), Some(Location::caller()), |g| g.threads[t].finished)
    }
    pub fn thread(&self) -> &Thread {
        &self.thread
    }
}

pub struct Builder {
    name: Option<String>,
}

impl Builder {
    pub fn new() -> Builder {
        Builder { name: None }
    }
    pub fn name(mut self, name: String) -> Builder {
        self.name = Some(name);
        self
    }
    #[track_caller]
    pub fn spawn<F, T>(self, f: F) -> std::io::Result<JoinHandle<T>>
    where
        F: FnOnce() -> T + Send + 'static,
        T: Send + 'static,
    {
        let (rt, me) = ctx();
        let result = Arc::new(StdMutex::new(None));
        let result2 = result.clone();
        let name = self.name;
        let rt2 = rt.clone();
        let tid = rt.sched_point(me, Op::Spawn, Some(Location::caller()), |g| rt2.register_thread(g, name));
        rt.start_os_thread(tid, move || {
            let r = std::panic::catch_unwind(std::panic::AssertUnwindSafe(f));
            let failed = r.is_err();
            *result2.lock().unwrap() = Some(r);
            if failed {
                // re-raise (silently) so the runtime records the thread as panicked
                std::panic::resume_unwind(Box::new("vsched: thread body panicked"));
            }
        });
        Ok(JoinHandle { thread: Thread { tid }, result })
    }
}

#[track_caller]
pub fn spawn<F, T>(f: F) -> JoinHandle<T>
where
    F: FnOnce() -> T + Send + 'static,
    T: Send + 'static,
{
    Builder::new().spawn(f).unwrap()
}
