//! Per-property plans (which scenario instances, to which preemption bound, per tier) and the
//! attribution of violation classes to properties.
use crate::h::Cfg;
use crate::scenarios::prog::OPS;

#[derive(Clone, Debug)]
pub struct Item {
    pub scenario: &'static str,
    pub cfg: Cfg,
    /// preemption bound in the quick tier (None: not run in quick)
    pub quick: Option<usize>,
    pub thorough: usize,
    /// small instance: several of them are explored concurrently with few workers each
    pub small: bool,
}

fn it(scenario: &'static str, cfg: &str, quick: Option<usize>, thorough: usize) -> Item {
    Item { scenario, cfg: Cfg::parse(cfg), quick, thorough, small: false }
}

fn small(mut i: Item) -> Item {
    i.small = true;
    i
}

pub const ALL_PROPS: &[&str] = &["C01", "C02", "C03", "C04", "C05", "C06", "C07", "C08", "C09", "C10", "C11", "C12", "C13", "C14", "C15", "C16", "C17"];

/// generated programs containing at least one op of `kinds` (empty: all); pairs and (thorough) triples
fn prog_sweep(kinds: &[&str], pools: &[usize], quick_pairs: Option<usize>, thorough_pairs: usize, thorough_triples: Option<usize>, quick_stride: usize) -> Vec<Item> {
    let mut v = vec![];
    let n = OPS.len() as i64;
    let has = |codes: &[i64]| kinds.is_empty() || codes.iter().any(|c| kinds.contains(&OPS[*c as usize]));
    let mut idx = 0usize;
    for &pool in pools {
        for a in 0..n {
            for b in 0..n {
                if !has(&[a, b]) {
                    continue;
                }
                if pool == 0 && !(crate::scenarios::prog::self_driving(a) && crate::scenarios::prog::self_driving(b)) {
                    continue;
                }
                idx += 1;
                let q = if idx % quick_stride == 0 { quick_pairs } else { None };
                v.push(small(it("prog", &format!("pool={},a={},b={}", pool, a, b), q, thorough_pairs)));
            }
        }
    }
    if let Some(tb) = thorough_triples {
        for &pool in pools {
            if pool != 1 {
                continue;
            }
            for a in 0..n {
                for b in 0..n {
                    for c in 0..n {
                        if !has(&[a, b, c]) {
                            continue;
                        }
                        v.push(small(it("prog", &format!("pool={},a={},b={},c={}", pool, a, b, c), None, tb)));
                    }
                }
            }
        }
    }
    v
}

/// pair programs with an arbitrary cfg prefix (e.g. a pinned pool); `self_only`: only ops that complete
/// on their own thread whatever the pool does
fn prog_pairs(kinds: &[&str], prefix: &str, self_only: bool, quick: Option<usize>, thorough: usize, quick_stride: usize) -> Vec<Item> {
    let mut v = vec![];
    let n = OPS.len() as i64;
    let mut idx = 0usize;
    for a in 0..n {
        for b in 0..n {
            if !(kinds.is_empty() || [a, b].iter().any(|c| kinds.contains(&OPS[*c as usize]))) {
                continue;
            }
            if self_only && !(crate::scenarios::prog::self_driving(a) && crate::scenarios::prog::self_driving(b)) {
                continue;
            }
            idx += 1;
            let q = if idx % quick_stride == 0 { quick } else { None };
            v.push(small(it("prog", &format!("{},a={},b={}", prefix, a, b), q, thorough)));
        }
    }
    v
}

/// programs with three ([[a],[b],[c]]) or four ([[a],[b],[c],[d]]) caller threads over a core alphabet
fn prog_threads(threads: usize, alphabet: &[&str], prefix: &str, quick: Option<usize>, thorough: usize, quick_stride: usize, thorough_stride: usize) -> Vec<Item> {
    let mut v = vec![];
    let codes: Vec<i64> = alphabet.iter().map(|k| crate::scenarios::prog::op_code(k)).collect();
    let mut idx = 0usize;
    let mut tuple = vec![0usize; threads];
    loop {
        // only non-decreasing tuples: the threads are symmetric, a permutation of the same operations is the same program
        if tuple.windows(2).all(|w| w[0] <= w[1]) {
            idx += 1;
            if idx % thorough_stride == 0 {
                let q = if idx % quick_stride == 0 { quick } else { None };
                let names = ["a", "b", "c", "d"];
                let ops: Vec<String> = tuple.iter().enumerate().map(|(i, t)| format!("{}={}", names[i], codes[*t])).collect();
                v.push(small(it("prog", &format!("{},t={},{}", prefix, threads, ops.join(",")), q, thorough)));
            }
        }
        let mut i = threads;
        loop {
            if i == 0 {
                return v;
            }
            i -= 1;
            tuple[i] += 1;
            if tuple[i] < codes.len() {
                break;
            }
            tuple[i] = 0;
        }
    }
}

/// single-context programs [[a,b,c]] (`t`=1); `no_kept`: without FDk (with no pool thread a future that is polled once and
/// then kept owns its queue, by design)
fn prog_seq(kinds: &[&str], prefix: &str, no_kept: bool, quick: Option<usize>, thorough: usize, quick_stride: usize) -> Vec<Item> {
    let mut v = vec![];
    let n = OPS.len() as i64;
    let mut idx = 0usize;
    for a in 0..n {
        for b in 0..n {
            for c in 0..n {
                let codes = [a, b, c];
                if !(kinds.is_empty() || codes.iter().any(|c| kinds.contains(&OPS[*c as usize]))) {
                    continue;
                }
                if no_kept && codes.iter().any(|c| OPS[*c as usize] == "FDk") {
                    continue;
                }
                // at least one operation that leaves something behind for the next ones to meet
                if !codes[..2].iter().any(|c| matches!(OPS[*c as usize], "FDd" | "AF" | "FDx" | "FSx" | "FDk" | "Dn" | "Dx" | "Sn" | "D")) {
                    continue;
                }
                idx += 1;
                let q = if idx % quick_stride == 0 { quick } else { None };
                v.push(small(it("prog", &format!("{},t=1,a={},b={},c={}", prefix, a, b, c), q, thorough)));
            }
        }
    }
    v
}

/// the same instances again with the saturated-start prelude (pool pinned, stale schedule entry, released by the environment)
fn with_pre(v: &mut Vec<Item>, picks: &[(&'static str, &str)], quick: Option<usize>, thorough: usize) {
    for (sc, cfg) in picks {
        v.push(it(sc, &format!("{},sat=1", cfg), quick, thorough));
        // ... and with the stale-waker environment (every object first hosts a future operation whose wakers fire again later)
        v.push(it(sc, &format!("{},sw=1", cfg), quick, thorough));
    }
}

pub fn plan(prop: &str) -> Vec<Item> {
    let mut v = plan_base(prop);
    match prop {
        "C01" => with_pre(&mut v, &[("excl_susp", "pool=1,kind=0"), ("excl_drop", "pool=1,k=1,other=0"), ("sync_states", "pool=1,st=5,n=2"), ("fs_cancel", "pool=1,mode=3")], Some(1), 2),
        "C02" => with_pre(&mut v, &[("order_ctx", "pool=1,a=0,b=1,pre=1"), ("order_ctx", "pool=1,a=3,b=1,pre=2"), ("order_ctx", "pool=1,a=4,b=0,pre=1"), ("sync_states", "pool=1,st=1,n=1")], Some(1), 2),
        "C03" => with_pre(&mut v, &[("f2_dormant_race", "pool=1"), ("f2_dormant_race", "pool=2"), ("try_paths", "pool=1,path=0"), ("try_paths", "pool=1,path=4"), ("pool_census", "pool=1,n=2,phases=0"), ("wake_ctx", "pool=1,kind=0,ctx=0,wake=0"), ("sync_states", "pool=1,st=2,n=1")], Some(1), 2),
        "C04" => with_pre(&mut v, &[("sync_states", "pool=1,st=0,n=2"), ("sync_states", "pool=1,st=2,n=2"), ("sync_states", "pool=1,st=3,n=1"), ("sync_states", "pool=1,st=5,n=1"), ("sync_states", "pool=1,st=7,n=1"), ("sync_states", "pool=1,st=8,n=1"), ("sync_states", "pool=2,st=5,n=1")], Some(1), 2),
        "C05" => with_pre(&mut v, &[("drop_obj", "pool=1,state=0,dropper=0"), ("drop_obj", "pool=1,state=2,dropper=0"), ("drop_obj", "pool=1,state=3,dropper=1"), ("drop_obj", "pool=1,state=4,dropper=0"), ("drop_obj", "pool=1,state=3,dropper=2")], Some(1), 2),
        "C06" => with_pre(&mut v, &[("wake_ctx", "pool=1,kind=0,ctx=0,wake=0"), ("wake_ctx", "pool=1,kind=1,ctx=0,wake=2"), ("wake_ctx", "pool=1,kind=0,ctx=2,wake=0"), ("wake_ctx", "pool=1,kind=2,ctx=2,wake=1"), ("wake_ctx", "pool=1,kind=0,ctx=1,wake=0"), ("fd_result", "pool=1,mode=5")], Some(2), 3),
        "C07" => with_pre(&mut v, &[("fd_result", "pool=1,mode=0"), ("fd_result", "pool=1,mode=1"), ("fd_result", "pool=1,mode=2"), ("fd_result", "pool=1,mode=3"), ("fd_result", "pool=1,mode=5"), ("fd_result", "pool=1,mode=6"), ("fd_two", "pool=1,order=0")], Some(1), 2),
        "C08" => with_pre(&mut v, &[("fs_cancel", "pool=1,mode=0"), ("fs_cancel", "pool=1,mode=1"), ("fs_cancel", "pool=1,mode=2"), ("fs_cancel", "pool=1,mode=3"), ("fs_nested", "pool=1,shape=0"), ("fs_nested", "pool=1,shape=2")], Some(1), 2),
        "C09" => with_pre(&mut v, &[("try_paths", "pool=1,path=0"), ("try_paths", "pool=1,path=1"), ("try_paths", "pool=1,path=2"), ("try_paths", "pool=1,path=4"), ("try_paths", "pool=1,path=5")], Some(1), 2),
        "C10" => with_pre(&mut v, &[("indep", "pool=2,k=1,mode=0,syncer=0"), ("indep", "pool=2,k=1,mode=1,syncer=0"), ("indep_race", "pool=2,n=2")], Some(0), 1),
        "C11" => with_pre(&mut v, &[("pipe_in_items", "pool=1,n=2,pat=1,conc=1"), ("pipe_in_items", "pool=1,n=2,pat=2,conc=2"), ("pipe_in_items", "pool=1,n=1,pat=1,conc=2,fin=1"), ("pipe_in_items", "pool=1,n=2,pat=0,conc=0")], Some(1), 2),
        "C12" => with_pre(&mut v, &[("pipe_out", "pool=1,n=2,d=1,pat=1"), ("pipe_out", "pool=1,n=2,d=2,pat=2"), ("pipe_out", "pool=1,n=1,d=1,pat=0"), ("pipe_out", "pool=1,n=3,d=1,pat=1")], Some(1), 2),
        "C13" => with_pre(&mut v, &[("suspend", "pool=1,resume=0,sync=1"), ("suspend", "pool=1,resume=1,sync=0"), ("suspend", "pool=1,resume=0,sync=0,stale=1")], Some(1), 2),
        "C15" => with_pre(&mut v, &[("panic_contain", "pool=1,ctx=0"), ("panic_contain", "pool=1,ctx=3"), ("panic_contain", "pool=1,ctx=2"), ("panic_contain", "pool=1,ctx=3,selfwake=1")], Some(2), 3),
        "C16" => with_pre(&mut v, &[("pipe_drop_output", "pool=1,mode=0"), ("pipe_drop_output", "pool=1,mode=1"), ("pipe_drop_output", "pool=1,mode=2"), ("pipe_drop_output", "pool=1,mode=3")], Some(1), 2),
        "C17" => with_pre(&mut v, &[("pool_census", "pool=1,n=2,phases=0"), ("pool_census", "pool=1,n=2,phases=2"), ("pool_census", "pool=1,n=2,phases=3")], Some(1), 2),
        "C14" => with_pre(&mut v, &[("drop_obj", "pool=1,state=3,dropper=0"), ("drop_obj", "pool=1,state=4,dropper=0"), ("fs_cancel", "pool=1,mode=3,raw=0"), ("sync_states", "pool=1,st=5,n=1,raw=0"), ("fd_result", "pool=1,mode=3,raw=0")], Some(1), 2),
        _ => {}
    }
    // the exclusivity and order oracles are armed inside every operation body, so C01 and C02 also explore the targeted instances
    // of the liveness properties (at a preemption bound of at most 1 in the quick tier)
    if prop == "C01" || prop == "C02" {
        let mut seen: std::collections::BTreeSet<(String, String)> = v.iter().map(|i| (i.scenario.to_string(), i.cfg.to_string())).collect();
        for q in ["C04", "C05", "C06", "C07", "C08", "C09", "C13"] {
            for i in plan_base(q) {
                if i.scenario == "prog" || !seen.insert((i.scenario.to_string(), i.cfg.to_string())) {
                    continue;
                }
                let mut i = i;
                i.quick = i.quick.map(|b| b.min(1));
                i.thorough = i.thorough.min(2);
                v.push(i);
            }
        }
    }
    // "no operation is lost or left stranded" is judged in every scenario (STRANDED / UNFINISHED / DUPLICATE / NOT-QUIET are C03's
    // classes everywhere), so C03 also explores the targeted instances of the future-operation and suspension properties
    if prop == "C03" {
        let mut seen: std::collections::BTreeSet<(String, String)> = v.iter().map(|i| (i.scenario.to_string(), i.cfg.to_string())).collect();
        for q in ["C06", "C07", "C08", "C13"] {
            for i in plan_base(q) {
                if i.scenario == "prog" || !seen.insert((i.scenario.to_string(), i.cfg.to_string())) {
                    continue;
                }
                let mut i = i;
                i.quick = i.quick.map(|b| b.min(1));
                i.thorough = i.thorough.min(2);
                v.push(i);
            }
        }
    }
    // generated programs with three and four caller threads
    const CORE: &[&str] = &["D", "S", "T", "FDa", "FSa", "AF", "FDx", "Dx", "FDs"];
    match prop {
        "C01" => {
            v.extend(prog_threads(3, CORE, "pool=1", Some(1), 1, 11, 1));
            v.extend(prog_threads(4, &CORE[..6], "pool=1", Some(0), 0, 2, 1));
            v.extend(prog_threads(3, &CORE[..6], "pool=2", Some(0), 0, 4, 1));
        }
        "C02" => {
            v.extend(prog_threads(3, CORE, "pool=1", Some(1), 1, 13, 1));
            v.extend(prog_threads(4, &CORE[..6], "pool=1", Some(0), 0, 3, 1));
        }
        "C03" => {
            v.extend(prog_threads(3, CORE, "pool=1", Some(1), 1, 14, 1));
            v.extend(prog_threads(3, &["D", "S", "T", "FDs"], "pool=0", Some(1), 1, 3, 1));
        }
        "C04" => v.extend(prog_threads(3, &["S", "D", "FDa", "FDs", "T"], "pool=1", Some(1), 1, 5, 1)),
        "C09" => v.extend(prog_threads(3, &["T", "S", "D", "FDa", "FSa"], "pool=1", Some(0), 1, 3, 1)),
        _ => {}
    }
    // run-on-wake executors (`inl`=1): every awaited task is polled inside its waker, under the task's lock
    match prop {
        "C03" | "C06" | "C07" | "C08" => {
            let kinds: &[&str] = match prop {
                "C08" => &["FSa"],
                "C07" => &["FDa"],
                _ => &["FDa", "FSa"],
            };
            v.extend(prog_pairs(kinds, "pool=1,inl=1", false, Some(1), 1, 1));
            v.extend(prog_pairs(kinds, "pool=0,inl=1", true, Some(1), 1, 1));
            for pool in [0, 1] {
                for kind in [0, 1, 2] {
                    if (prop == "C08") != (kind == 2) && prop != "C03" && prop != "C06" {
                        continue;
                    }
                    v.push(it("wake_ctx", &format!("pool={},kind={},ctx=2,wake=0,inl=1", pool, kind), Some(2), 3));
                    v.push(it("wake_ctx", &format!("pool={},kind={},ctx=2,wake=1,inl=1", pool, kind), Some(1), 2));
                }
            }
            if prop != "C08" {
                for pool in [0, 1, 2] {
                    v.push(it("fd_result", &format!("pool={},mode=0,inl=1", pool), Some(if pool == 2 { 1 } else { 2 }), 3));
                }
                v.push(it("fd_result", "pool=0,mode=0,selfwake=1,inl=1", Some(2), 3));
                v.push(it("fd_result", "pool=1,mode=0,after=1,inl=1", Some(2), 3));
                for order in [0, 1, 2] {
                    v.push(it("fd_two", &format!("pool=1,order={},inl=1", order), Some(1), 2));
                }
            }
            if prop == "C08" || prop == "C03" {
                for shape in [0, 1, 2, 3] {
                    v.push(it("fs_nested", &format!("pool=1,shape={},inl=1", shape), Some(1), 2));
                }
                v.push(it("fs_cancel", "pool=1,mode=4,inl=1", Some(1), 2));
            }
        }
        "C12" => {
            for (n, d, pat) in [(1, 1, 1), (2, 1, 1), (2, 2, 0), (3, 1, 2)] {
                v.push(it("pipe_out", &format!("pool=1,n={},d={},pat={},inl=1", n, d, pat), Some(if n <= 2 { 2 } else { 1 }), 3));
            }
            v.push(it("pipe_out", "pool=2,n=2,d=1,pat=1,inl=1", Some(1), 2));
            v.push(it("pipe_partial", "pool=1,d=3,r=1,inl=1", Some(1), 2));
            v.push(it("pipe_rewake", "pool=1,what=0,inl=1", Some(1), 2));
        }
        "C16" => {
            for pool in [1, 2] {
                v.push(it("pipe_drop_output", &format!("pool={},mode=5", pool), Some(2), 3));
            }
            v.push(it("pipe_drop_output", "pool=1,mode=5,sinpoll=1", Some(1), 2));
            v.push(it("pipe_drop_output", "pool=1,mode=2,inl=1", Some(2), 3));
        }
        "C01" | "C02" => {
            v.extend(prog_pairs(&["FDa", "FSa"], "pool=1,inl=1", false, Some(0), 1, 2));
            // stale wakers (thread wakers with no pool thread, queue wakers with one) firing while callers claim the queue
            for pool in [0, 1] {
                v.push(it("sync_states", &format!("pool={},st=9,n=2", pool), Some(2), 3));
                v.push(it("try_paths", &format!("pool={},path=6", pool), Some(2), 3));
            }
        }
        _ => {}
    }
    // generated programs with a saturated start
    match prop {
        "C01" | "C02" | "C03" | "C04" | "C06" | "C07" | "C08" | "C09" => {
            let kinds: &[&str] = match prop {
                "C03" => &["D", "Dn", "Dx", "Sn", "FDd", "AF", "FDx", "FDk"],
                "C04" => &["S", "Sn", "Dx", "FDs"],
                "C06" => &["FDa", "FDd", "FSa", "AF", "FDx", "FSx", "FDk"],
                "C07" => &["FDa", "FDd", "FDs", "AF", "FDx", "FDk"],
                "C08" => &["FSa", "FSx"],
                "C09" => &["T"],
                _ => &[],
            };
            v.extend(prog_pairs(kinds, "pool=1,sat=1", false, Some(0), 1, 1));
            v.extend(prog_pairs(kinds, "pool=1,sw=1", false, Some(0), 1, 1));
            v.extend(prog_pairs(kinds, "pool=0,sw=1", true, Some(0), 1, 1));
            // one context, three operations in sequence, no pool thread: whatever the context left queued or suspended on the
            // object is carried by its later awaiting / synchronous operations (seed C08-j)
            if prop != "C01" && prop != "C02" {
                v.extend(prog_seq(kinds, "pool=0", true, Some(1), 2, if prop == "C07" || prop == "C08" { 1 } else { 2 }));
                v.extend(prog_seq(kinds, "pool=1", false, Some(0), 1, 5));
            } else {
                v.extend(prog_seq(kinds, "pool=0", true, Some(0), 1, 2));
            }
        }
        _ => {}
    }
    // private scheduler (`priv`=1): the queues belong to a `Scheduler::new()` of their own while the global scheduler has no
    // thread at all, so anything that reaches for the global scheduler instead of the queue's own one strands the work (seed C13-j)
    {
        let picks: &[&str] = match prop {
            "C13" => &["suspend"],
            "C03" => &["f2_dormant_race", "stale_entry", "try_paths", "wake_ctx", "fd_result"],
            "C04" => &["sync_states", "f3_sync_sync", "f3_nested_sync", "sync_wipe", "nested_wait"],
            "C06" => &["wake_ctx", "wake_stale_entry"],
            "C07" => &["fd_result", "fd_two", "repoll"],
            "C08" => &["fs_cancel", "fs_nested"],
            "C09" => &["try_paths"],
            "C10" => &["indep", "indep_stale", "indep_race"],
            "C15" => &["panic_contain"],
            "C17" => &["pool_census"],
            _ => &[],
        };
        let mut extra = vec![];
        let mut seen = std::collections::BTreeSet::new();
        for i in plan_base(prop) {
            if !picks.contains(&i.scenario) || i.cfg.opt("raw", 1) == 0 || i.quick.is_none() {
                continue;
            }
            if prop != "C13" && (i.cfg.opt("pool", 0) > (if prop == "C10" { 3 } else { 1 }) || i.cfg.opt("inl", 0) != 0 || i.cfg.opt("selfwake", 0) != 0) {
                continue;
            }
            let cfg = format!("{},priv=1", i.cfg.to_string());
            if !seen.insert((i.scenario, cfg.clone())) {
                continue;
            }
            let qb = if prop == "C13" { i.quick.map(|b| b.min(2)) } else { i.quick.map(|b| b.min(1)) };
            let mut j = it(i.scenario, &cfg, qb, i.thorough.min(2));
            j.small = i.small;
            extra.push(j);
        }
        v.extend(extra);
        if prop == "C13" {
            // `late`=1: the task awaiting the suspend future is the runner (no pool thread yet); the pool appears during the suspension
            for pool in [1, 2] {
                for resume in [0, 1] {
                    for sync in [0, 1] {
                        let b = if pool == 1 { 2 } else { 1 };
                        v.push(it("suspend", &format!("pool={},resume={},sync={},late=1,priv=1", pool, resume, sync), Some(b), b + 1));
                        v.push(it("suspend", &format!("pool={},resume={},sync={},late=1,api=1,priv=1", pool, resume, sync), Some(b), b + 1));
                    }
                }
                v.push(it("suspend", &format!("pool={},resume=0,sync=1,late=1,api=1", pool), Some(1), 2));
            }
        }
    }
    // spurious wake-ups (`spur`=1): one `thread::park` or `Condvar::wait` call of the subject may return although nobody
    // woke it (std allows both), at any explored moment; a spurious return costs one deviation like a preemption does
    {
        let picks: &[&str] = match prop {
            "C04" => &["sync_states", "f3_sync_sync", "sync_wipe"],
            "C06" => &["wake_ctx"],
            "C07" => &["fd_result", "fd_two"],
            "C13" => &["suspend"],
            "C08" => &["fs_nested"],
            "C05" => &["drop_obj"],
            "C03" => &["f2_dormant_race", "try_paths"],
            _ => &[],
        };
        let mut extra = vec![];
        for i in plan_base(prop) {
            if !picks.contains(&i.scenario) || i.cfg.opt("pool", 0) > 1 || i.cfg.opt("inl", 0) != 0 {
                continue;
            }
            // only instances in which some thread of the subject parks or waits: a sync caller, a drain inside sync, .sync()
            let waits = match i.scenario {
                "wake_ctx" => i.cfg.opt("ctx", 0) == 1,
                "fd_result" => matches!(i.cfg.opt("mode", 0), 1 | 3 | 6),
                "fd_two" => i.cfg.opt("pool", 0) == 0,
                _ => true,
            };
            if !waits {
                continue;
            }
            let mut j = it(i.scenario, &format!("{},spur=1", i.cfg.to_string()), i.quick.map(|b| b.min(2)), i.thorough.min(3));
            j.small = i.small;
            extra.push(j);
        }
        v.extend(extra);
    }
    v
}

fn plan_base(prop: &str) -> Vec<Item> {
    let mut v = vec![];
    match prop {
        "C01" => {
            for pool in [0, 1] {
                v.push(it("excl_susp", &format!("pool={},kind=0", pool), Some(2), 3));
            }
            v.push(it("excl_susp", "pool=2,kind=0", None, 2));
            v.push(it("excl_susp", "pool=1,kind=1", Some(1), 2));
            v.push(it("excl_susp", "pool=1,kind=2", Some(1), 2));
            for st in [0, 2, 5] {
                for pool in [0, 1] {
                    v.push(it("sync_states", &format!("pool={},st={},n=2", pool, st), Some(2), 3));
                }
            }
            v.push(it("sync_states", "pool=1,st=4,n=2", Some(1), 2));
            v.push(it("sync_states", "pool=1,st=8,n=2", Some(2), 3));
            v.push(it("fd_two", "pool=1,order=0", Some(2), 3));
            for other in [0, 1, 2] {
                v.push(it("excl_drop", &format!("pool=1,k=1,other={}", other), Some(2), 3));
                v.push(it("excl_drop", &format!("pool=2,k=1,other={}", other), Some(1), 2));
            }
            v.push(it("excl_drop", "pool=1,k=2,other=0", Some(2), 3));
            for mode in [2, 3] {
                v.push(it("fs_cancel", &format!("pool=1,mode={}", mode), Some(2), 3));
            }
            v.push(it("excl_drop", "pool=0,k=1,other=0", Some(2), 3));
            // a future that once ran the queue itself is polled again after the queue changed hands twice (seed C01-j)
            for who in [0, 1, 2] {
                v.push(it("repoll", &format!("pool=1,who={}", who), Some(2), 3));
            }
            v.push(it("repoll", "pool=2,who=0", Some(1), 2));
            for fin in [0, 1, 2] {
                v.push(it("repoll", &format!("pool=1,stop=1,fin={}", fin), Some(2), 3));
            }
            v.push(it("pipe_in_items", "pool=1,n=2,pat=1,conc=1", Some(1), 2));
            v.push(it("drop_obj", "pool=1,state=3,dropper=2", Some(1), 2));
            v.extend(prog_sweep(&[], &[1], Some(1), 2, Some(1), 1));
            v.extend(prog_sweep(&[], &[0, 2], None, 1, None, 1));
            v.extend(prog_pairs(&[], "pool=1,busy=1", false, Some(1), 1, 3));
            v.extend(prog_pairs(&[], "pool=1,busy=1,late=1", true, Some(1), 2, 1));
        }
        "C02" => {
            for a in 0..6 {
                for b in 0..6 {
                    v.push(small(it("order_ctx", &format!("pool=1,a={},b={},pre=1", a, b), Some(1), 2)));
                    v.push(small(it("order_ctx", &format!("pool=1,a={},b={},pre=2", a, b), None, 2)));
                    v.push(small(it("order_ctx", &format!("pool=0,a={},b={},pre=1", a, b), if a != 3 && a != 5 && b != 3 && b != 5 { Some(2) } else { None }, 3)));
                }
            }
            for a in [0, 1, 3] {
                v.push(it("order_ctx", &format!("pool=1,a={},b=1,pre=1", a), Some(2), 3));
            }
            v.push(it("sync_states", "pool=1,st=1,n=1", Some(2), 3));
            v.push(it("sync_states", "pool=0,st=1,n=2", Some(2), 3));
            // a future that once ran the queue itself meets it again after the queue changed hands (seeds C01-j, C02-j)
            for fin in [0, 1, 2] {
                v.push(it("repoll", &format!("pool=1,stop=1,fin={}", fin), Some(2), 3));
            }
            for who in [0, 1, 2] {
                v.push(it("repoll", &format!("pool=1,who={}", who), Some(2), 3));
            }
            v.extend(prog_sweep(&[], &[1], Some(1), 2, Some(1), 1));
            v.extend(prog_sweep(&[], &[0, 2], None, 1, None, 1));
        }
        "C03" => {
            // a sync caller that is handed its queue leaves the other queues' schedule entries alone (seeds C06-k, C10-k, C09-k)
            for stale in [0, 1] {
                v.push(it("claim_others", &format!("pool=1,stale={}", stale), Some(2), 3));
            }
            v.push(it("claim_others", "pool=2,stale=1", Some(1), 2));
            for pool in [1, 2, 3] {
                v.push(it("f2_dormant_race", &format!("pool={}", pool), Some(if pool == 1 { 3 } else { 2 }), if pool == 1 { 4 } else { 3 }));
            }
            v.push(it("desync_then_sync", "pool=1", Some(3), 4));
            for how in [0, 1] {
                v.push(it("stale_entry", &format!("pool=1,how={}", how), Some(2), 3));
                v.push(it("stale_entry", &format!("pool=2,how={}", how), Some(1), 2));
            }
            for pool in [1, 2] {
                v.push(it("pool_census", &format!("pool={},n=2,phases=0", pool), Some(if pool == 1 { 2 } else { 1 }), 2));
            }
            v.push(it("sync_states", "pool=1,st=1,n=1", Some(2), 3));
            v.push(it("sync_states", "pool=1,st=2,n=1", Some(2), 3));
            v.push(it("try_paths", "pool=1,path=0", Some(2), 3));
            v.push(it("try_paths", "pool=1,path=2", Some(2), 3));
            v.push(it("try_paths", "pool=1,path=4", Some(2), 3));
            // future operations whose future is detached, never polled, or polled once and then left alone: the pool finishes them
            for pool in [1, 2] {
                for mode in [2, 4, 5] {
                    v.push(it("fd_result", &format!("pool={},mode={}", pool, mode), Some(if pool == 1 { 2 } else { 1 }), if pool == 1 { 3 } else { 2 }));
                }
            }
            v.push(it("fd_result", "pool=1,mode=5,selfwake=1", Some(2), 3));
            // pipes: processing accepted through a pipe completes whatever the consumer's waker does, and with no pool thread
            v.push(it("pipe_out", "pool=1,n=2,d=1,pat=1,inl=1", Some(2), 3));
            v.push(it("pipe_out", "pool=1,n=1,d=2,pat=0,inl=1", Some(2), 3));
            v.push(it("pipe_fs", "pool=0,n=2,y=1", Some(2), 3));
            // operations on healthy objects after pool threads were lost to panics
            v.push(it("panic_contain", "pool=1,ctx=0", Some(2), 3));
            v.push(it("panic_contain", "pool=1,ctx=3", Some(2), 3));
            v.push(it("panic_contain", "pool=2,ctx=0", Some(1), 2));
            v.push(it("panic_many", "pool=2,keep=1", Some(1), 2));
            v.push(it("panic_many", "pool=3,keep=2", Some(0), 1));
            v.push(it("fd_result", "pool=1,mode=2,after=1", Some(2), 3));
            v.push(it("wake_ctx", "pool=1,kind=0,ctx=0,wake=0", Some(2), 4));
            v.push(it("pipe_in_items", "pool=1,n=2,pat=1,conc=2", Some(1), 2));
            v.extend(prog_sweep(&["D", "Dn", "Dx", "Sn", "FDd", "AF"], &[1], Some(1), 2, Some(1), 1));
            v.extend(prog_sweep(&["D", "Dn", "Dx", "Sn", "FDd", "AF"], &[2], None, 1, None, 1));
            v.extend(prog_pairs(&["D", "Dn", "Dx", "Sn", "FDd", "AF", "FDx", "FDk"], "pool=1,busy=1", false, Some(1), 2, 2));
            v.extend(prog_pairs(&["D", "Dn", "Sn"], "pool=1,busy=1,late=1", true, Some(1), 2, 1));
            v.extend(prog_pairs(&["D", "Dn", "Dx", "Sn", "FDd", "AF", "FDx", "FDk"], "pool=2,busy=2", false, None, 1, 1));
        }
        "C04" => {
            for st in [0, 1, 2, 3, 4, 5, 8] {
                for pool in [0, 1] {
                    for n in [1, 2] {
                        let heavy = pool == 1 && n == 2 && (st == 1 || st == 4);
                        v.push(it("sync_states", &format!("pool={},st={},n={}", pool, st, n), Some(if heavy { 1 } else { 2 }), if heavy { 2 } else { 3 }));
                    }
                }
            }
            for pool in [0, 1] {
                for n in [1, 2] {
                    v.push(it("sync_states", &format!("pool={},st=9,n={}", pool, n), Some(2), 3));
                }
            }
            v.push(it("sync_states", "pool=1,st=7,n=1", Some(2), 3));
            for pool in [0, 1] {
                v.push(it("sync_states", &format!("pool={},st=5,n=1,selfwake=1", pool), Some(2), 3));
            }
            v.push(it("sync_states", "pool=0,st=5,n=2,selfwake=1", Some(2), 3));
            v.push(it("sync_states", "pool=2,st=7,n=2", Some(1), 1));
            v.push(it("sync_states", "pool=2,st=8,n=1", Some(2), 3));
            v.push(it("sync_states", "pool=2,st=3,n=2", Some(1), 2));
            v.push(it("f3_nested_sync", "pool=1", Some(3), 4));
            // a blocking wait nested inside a blocking wait on one thread (seed C14-j)
            for inner in [0, 2] {
                v.push(it("nested_wait", &format!("pool=0,inner={},seq=1", inner), Some(2), 3));
                v.push(it("nested_wait", &format!("pool=0,inner={}", inner), Some(0), 1));
            }
            v.push(it("nested_wait", "pool=1,inner=0,seq=1", Some(1), 2));
            // a sync caller blocked behind a suspended operation is the only possible runner once the pool is pinned (seed C06-j)
            for wake in [0, 1, 2] {
                v.push(it("wake_ctx", &format!("pool=1,kind=0,ctx=3,wake={}", wake), Some(2), 3));
            }
            v.push(it("sync_wipe", "pool=1", Some(2), 3));
            v.push(it("sync_wipe", "pool=2", Some(1), 2));
            // a desync from one more thread lands at an arbitrary moment (e.g. between an owner handing the queue back and its
            // rescheduling call) while sync callers are blocked behind the owner
            for (pool, st, n) in [(0, 4, 1), (0, 0, 2), (0, 2, 1), (1, 4, 1), (0, 5, 1)] {
                v.push(it("sync_states", &format!("pool={},st={},n={},racer=1", pool, st, n), Some(2), 3));
            }
            // a sync on a free object while a caller is despawning surplus threads, one of them pinned by another object's job
            v.push(it("indep_despawn", "pool=2,keep=1,fop=1", Some(2), 3));
            v.push(it("indep_despawn", "pool=3,keep=2,fop=1", Some(1), 2));
            v.push(it("f3_sync_sync", "pool=0", Some(3), 5));
            v.push(it("fd_result", "pool=0,mode=3", Some(3), 4));
            v.push(it("fd_result", "pool=0,mode=3,k=2", Some(3), 4));
            v.extend(prog_sweep(&["S", "Sn", "Dx", "FDs"], &[1], Some(1), 2, Some(1), 1));
            v.extend(prog_sweep(&["S", "Sn", "FDs"], &[0], Some(1), 2, None, 1));
            v.extend(prog_pairs(&["S", "Sn", "FDs"], "pool=1,busy=1,late=1", true, Some(1), 2, 1));
            v.extend(prog_pairs(&["S", "Sn", "Dx", "FDs"], "pool=1,busy=1", false, Some(1), 2, 2));
        }
        "C05" => {
            // a protected value without drop glue: only the ordering of Desync::drop shows whether it waited (seed C05-k)
            for state in [0, 1, 2] {
                for pool in [0, 1, 2] {
                    v.push(it("drop_plain", &format!("pool={},state={}", pool, state), Some(if pool == 2 { 1 } else { 2 }), if pool == 2 { 2 } else { 3 }));
                }
            }
            for state in 0..4 {
                for dropper in 0..3 {
                    for pool in [0, 1, 2] {
                        if pool == 0 && dropper == 1 {
                            continue;
                        }
                        let q = if pool == 2 { None } else { Some(2) };
                        v.push(it("drop_obj", &format!("pool={},state={},dropper={}", pool, state, dropper), q, if pool == 2 { 2 } else { 3 }));
                    }
                }
            }
            v.push(it("pipe_in_items", "pool=1,n=1,pat=1,conc=2,fin=1", Some(2), 3));
            v.push(it("pipe_drop_output", "pool=1,mode=0", Some(2), 3));
            // a thread unwinding from an unrelated panic uses the object from a destructor, then lets go of it (5: last owner, 6: not)
            for pool in [0, 1] {
                for state in [0, 2, 3] {
                    for dropper in [5, 6] {
                        if pool == 0 && state != 0 {
                            continue;
                        }
                        v.push(it("drop_obj", &format!("pool={},state={},dropper={}", pool, state, dropper), Some(2), 3));
                    }
                }
            }
            v.push(it("drop_obj", "pool=1,state=1,dropper=5", Some(2), 3));
            // a task (also under a run-on-wake executor) is awaiting a future operation's result when the last owner is dropped
            for pool in [1, 2] {
                v.push(it("drop_obj", &format!("pool={},state=8,dropper=0,inl=1", pool), Some(if pool == 1 { 2 } else { 1 }), 3));
            }
            v.push(it("drop_obj", "pool=1,state=8,dropper=0", Some(2), 3));
            v.push(it("drop_obj", "pool=0,state=8,dropper=0,inl=1", Some(2), 3));
            // the owning task's waker panics inside wake() during a poll that runs the queue; the operation stays suspended with the
            // value borrowed while the task unwinds and drops the last reference (no pool thread: the poll always runs the queue)
            v.push(it("drop_obj", "pool=0,state=6,dropper=7,selfwake=1", Some(2), 3));
            // the last owner is released inside a task's waker, on the thread that delivers the wake-up
            v.push(it("drop_obj", "pool=1,state=6,dropper=4", Some(2), 3));
            v.push(it("drop_obj", "pool=2,state=6,dropper=4", Some(1), 2));
            for pool in [0, 1] {
                for dropper in [0, 3] {
                    v.push(it("drop_obj", &format!("pool={},state=5,dropper={}", pool, dropper), Some(2), 3));
                }
                for state in [0, 1, 2, 3] {
                    v.push(it("drop_obj", &format!("pool={},state={},dropper=3", pool, state), Some(2), 3));
                }
            }
            for pool in [0, 1, 2] {
                for dropper in [0, 2] {
                    v.push(it("drop_obj", &format!("pool={},state=4,dropper={}", pool, dropper), Some(if pool == 2 { 1 } else { 2 }), if pool == 2 { 2 } else { 3 }));
                }
            }
        }
        "C06" => {
            // a sync caller that is handed its queue leaves the other queues' schedule entries alone (seeds C06-k, C10-k, C09-k)
            for stale in [0, 1] {
                v.push(it("claim_others", &format!("pool=1,stale={}", stale), Some(2), 3));
            }
            v.push(it("claim_others", "pool=2,stale=1", Some(1), 2));
            for kind in [0, 1] {
                for wake in [0, 1, 2] {
                    for pool in [1, 2] {
                        v.push(it("wake_ctx", &format!("pool={},kind={},ctx=0,wake={}", pool, kind, wake), Some(if pool == 1 { 3 } else { 2 }), if pool == 1 { 4 } else { 3 }));
                    }
                    v.push(it("wake_ctx", &format!("pool=0,kind={},ctx=1,wake={}", kind, wake), Some(3), 5));
                    for pool in [0, 1] {
                        v.push(it("wake_ctx", &format!("pool={},kind={},ctx=2,wake={}", pool, kind, wake), Some(2), if pool == 0 { 4 } else { 3 }));
                    }
                    v.push(it("wake_ctx", &format!("pool=1,kind={},ctx=1,wake={}", kind, wake), Some(2), 3));
                    // the pool is pinned after the first poll: the wake-up has to reach the thread blocked in sync (seed C06-j)
                    v.push(it("wake_ctx", &format!("pool=1,kind={},ctx=3,wake={}", kind, wake), Some(2), 3));
                    v.push(it("wake_ctx", &format!("pool=2,kind={},ctx=3,wake={}", kind, wake), Some(1), 2));
                }
            }
            v.push(it("wake_ctx", "pool=1,kind=0,ctx=3,wake=1,selfwake=1", Some(2), 3));
            for wake in [0, 1, 2] {
                for pool in [0, 1] {
                    v.push(it("wake_ctx", &format!("pool={},kind=2,ctx=2,wake={}", pool, wake), Some(2), 3));
                }
            }
            // the operation wakes itself during its first poll and then suspends on the external event
            for (ctx, pool) in [(0, 1), (1, 0), (1, 1), (2, 0), (2, 1)] {
                for kind in [0, 2] {
                    if kind == 2 && ctx != 2 {
                        continue;
                    }
                    v.push(it("wake_ctx", &format!("pool={},kind={},ctx={},wake=0,selfwake=1", pool, kind, ctx), Some(2), 3));
                }
            }
            v.push(it("sync_states", "pool=1,st=5,n=1", Some(2), 3));
            v.push(it("sync_states", "pool=0,st=5,n=2", Some(2), 4));
            v.push(it("try_paths", "pool=1,path=6", Some(2), 3));
            v.push(it("sync_states", "pool=1,st=9,n=1", Some(2), 3));
            for kind in [0, 1] {
                v.push(it("wake_stale_entry", &format!("pool=1,kind={}", kind), Some(2), 3));
            }
            v.push(it("wake_stale_entry", "pool=2,kind=0", Some(1), 2));
            // the future is polled once by a task that then neither re-polls nor drops it: the pool takes over
            for pool in [1, 2] {
                v.push(it("fd_result", &format!("pool={},mode=5", pool), Some(if pool == 1 { 2 } else { 1 }), if pool == 1 { 3 } else { 2 }));
            }
            v.push(it("excl_susp", "pool=1,kind=0", Some(2), 3));
            // generated programs with gated operations, every waker ever handed out fired once more (stale wake-ups)
            v.extend(prog_pairs(&["FDa", "FDd", "FSa", "AF", "FDx", "FSx", "FDk"], "pool=1,stale=1", false, Some(1), 2, 1));
            v.extend(prog_pairs(&["FDa", "FDd", "FSa", "AF", "FDx", "FSx", "FDk"], "pool=2,stale=1", false, None, 1, 1));
            v.extend(prog_pairs(&["FDd", "AF", "FDx"], "pool=1,busy=1,stale=1", false, None, 1, 1));
        }
        "C07" => {
            for who in [0, 1, 2] {
                v.push(it("repoll", &format!("pool=1,who={}", who), Some(2), 3));
            }
            for fin in [0, 1, 2] {
                v.push(it("repoll", &format!("pool=1,stop=1,fin={}", fin), Some(2), 3));
                v.push(it("repoll", &format!("pool=2,stop=1,fin={}", fin), Some(1), 2));
            }
            // an operation queued behind the awaited one depends on the awaiting task having its result (seed C08-k, seen from C07)
            v.push(it("fd_result", "pool=0,mode=0,dep=1", Some(3), 4));
            v.push(it("fd_result", "pool=0,mode=0,dep=1,gated=0", Some(3), 4));
            v.push(it("fd_result", "pool=1,mode=0,dep=1", Some(2), 3));
            v.push(it("fd_result", "pool=1,mode=0,dep=1,sat=1", Some(1), 2));
            for mode in 0..5 {
                for pool in [0, 1, 2] {
                    v.push(it("fd_result", &format!("pool={},mode={}", pool, mode), Some(if pool == 2 { 1 } else { 2 }), if pool == 2 { 2 } else { 3 }));
                }
            }
            for mode in [0, 2] {
                for pool in [0, 1] {
                    v.push(it("fd_result", &format!("pool={},mode={},after=1", pool, mode), Some(2), 3));
                }
            }
            v.push(it("fd_result", "pool=1,mode=0,gated=0", Some(2), 3));
            for mode in [0, 1] {
                for pool in [0, 1] {
                    v.push(it("fd_result", &format!("pool={},mode={},selfwake=1", pool, mode), Some(2), 3));
                }
            }
            v.push(it("fd_result", "pool=1,mode=1,selfwake=1,sat=1", Some(1), 2));
            for mode in [5, 6] {
                for pool in [1, 2] {
                    v.push(it("fd_result", &format!("pool={},mode={}", pool, mode), Some(if pool == 1 { 2 } else { 1 }), if pool == 1 { 3 } else { 2 }));
                }
                v.push(it("fd_result", &format!("pool=0,mode={}", mode), Some(2), 3));
            }
            v.push(it("fd_result", "pool=1,mode=1,gated=0", Some(2), 3));
            v.push(it("fd_result", "pool=1,mode=3,k=2", Some(2), 3));
            v.push(it("fd_result", "pool=0,mode=3,k=2", Some(3), 4));
            for order in 0..3 {
                v.push(it("fd_two", &format!("pool=1,order={}", order), Some(2), 3));
                if order > 0 {
                    v.push(it("fd_two", &format!("pool=0,order={}", order), Some(3), 4));
                }
            }
            v.push(it("fd_two", "pool=1,order=0,swap=1", Some(2), 3));
            v.push(it("fs_nested", "pool=1,shape=1", Some(2), 3));
            v.extend(prog_sweep(&["FDa", "FDd", "FDs", "AF", "FDx", "FDk"], &[1], Some(1), 2, Some(1), 1));
            v.extend(prog_pairs(&["FDa", "FDd", "FDs", "AF", "FDx", "FDk"], "pool=1,busy=1", false, Some(1), 2, 2));
        }
        "C08" => {
            for mode in 0..4 {
                for pool in [1, 2] {
                    v.push(it("fs_cancel", &format!("pool={},mode={}", pool, mode), Some(if pool == 1 { 2 } else { 1 }), if pool == 1 { 3 } else { 2 }));
                }
            }
            v.push(it("fs_cancel", "pool=0,mode=0", Some(3), 4));
            for pool in [0, 1] {
                v.push(it("fs_cancel", &format!("pool={},mode=4", pool), Some(2), 3));
            }
            v.push(it("fs_cancel", "pool=1,mode=4,sat=1", Some(1), 2));
            v.push(it("fs_cancel", "pool=1,mode=4,ahead=1", Some(2), 3));
            v.push(it("fs_cancel", "pool=1,mode=3,ahead=1", Some(2), 3));
            for mode in [2, 3] {
                for syncer in [1, 2] {
                    v.push(it("fs_cancel", &format!("pool=1,mode={},syncer={}", mode, syncer), Some(if syncer == 2 { 2 } else { 1 }), 2));
                }
                v.push(it("fs_cancel", &format!("pool=0,mode={},syncer=1", mode), Some(2), 3));
            }
            v.push(it("fs_cancel", "pool=1,mode=0,ahead=1", Some(2), 3));
            // an operation queued behind the awaited future_sync depends on the awaiting task having its result (seed C08-k)
            v.push(it("fs_cancel", "pool=0,mode=0,dep=1", Some(3), 4));
            v.push(it("fs_cancel", "pool=1,mode=0,dep=1", Some(2), 3));
            v.push(it("fs_cancel", "pool=1,mode=0,dep=1,sat=1", Some(1), 2));
            v.push(it("fs_cancel", "pool=0,mode=0,dep=1,ahead=1", Some(2), 3));
            // no pool thread: the awaiting task drains the queue while it waits for its slot, an earlier operation suspends, and
            // that operation's wake-up has to bring the task back (seed C08-j)
            for mode in [0, 4] {
                v.push(it("fs_cancel", &format!("pool=0,mode={},ahead=1", mode), Some(3), 4));
                v.push(it("fs_cancel", &format!("pool=0,mode={},ahead=1,inl=1", mode), Some(2), 3));
            }
            for shape in 0..4 {
                v.push(it("fs_nested", &format!("pool=1,shape={}", shape), Some(2), 3));
                v.push(it("fs_nested", &format!("pool=2,shape={}", shape), Some(1), 2));
            }
            v.push(it("excl_susp", "pool=1,kind=1", Some(1), 2));
            v.push(it("wake_ctx", "pool=1,kind=2,ctx=2,wake=0", Some(2), 3));
            v.extend(prog_sweep(&["FSa", "FSx"], &[1], Some(1), 2, Some(1), 1));
        }
        "C09" => {
            for path in 0..6 {
                for pool in [0, 1, 2] {
                    if pool == 0 && (path == 2 || path == 4 || path == 5) {
                        continue;
                    }
                    let heavy = path == 3 && pool >= 1;
                    v.push(it("try_paths", &format!("pool={},path={}", pool, path), if pool == 2 { Some(1) } else { Some(if heavy { 1 } else { 2 }) }, if pool == 2 || heavy { 2 } else { 3 }));
                }
            }
            for pool in [0, 1, 2] {
                v.push(it("try_paths", &format!("pool={},path=6", pool), Some(if pool == 2 { 1 } else { 2 }), 3));
            }
            for pool in [0, 1] {
                v.push(it("try_paths", &format!("pool={},path=7", pool), Some(2), 3));
            }
            // try_sync on a free object while a caller is despawning surplus threads, one of them pinned by another object's job
            v.push(it("indep_despawn", "pool=2,keep=1,fop=2", Some(2), 3));
            v.push(it("indep_despawn", "pool=3,keep=2,fop=2", Some(1), 2));
            v.push(it("f1_try_sync_idle_nonempty", "pool=1", Some(3), 4));
            v.push(it("f1_try_sync_idle_nonempty", "pool=0", Some(3), 4));
            v.push(it("excl_susp", "pool=1,kind=0", Some(2), 3));
            v.extend(prog_sweep(&["T"], &[1], Some(1), 2, Some(1), 1));
            v.extend(prog_sweep(&["T"], &[0], Some(1), 2, None, 1));
            v.extend(prog_pairs(&["T"], "pool=1,busy=1,late=1", true, Some(1), 2, 1));
        }
        "C10" => {
            // a sync caller that is handed its queue leaves the other queues' schedule entries alone (seeds C06-k, C10-k, C09-k)
            for stale in [0, 1] {
                v.push(it("claim_others", &format!("pool=1,stale={}", stale), Some(2), 3));
            }
            v.push(it("claim_others", "pool=2,stale=1", Some(1), 2));
            v.push(it("indep", "pool=2,k=1,mode=0,syncer=0", Some(1), 2));
            v.push(it("indep", "pool=2,k=1,mode=1,syncer=0", Some(1), 2));
            v.push(it("indep", "pool=2,k=1,mode=0,syncer=1", Some(1), 1));
            v.push(it("indep", "pool=2,k=1,mode=1,syncer=1", Some(0), 1));
            v.push(it("indep", "pool=3,k=2,mode=2,syncer=0", Some(0), 1));
            v.push(it("indep", "pool=3,k=2,mode=0,syncer=0", None, 1));
            for how in [0, 1] {
                v.push(it("indep_stale", &format!("pool=2,how={}", how), Some(1), 2));
            }
            v.push(it("indep_stale", "pool=3,how=0", None, 1));
            v.push(it("indep_race", "pool=2,n=2", Some(2), 3));
            // (the seeded spawn race C10-c needs 2 preemptions here)
            v.push(it("indep_race", "pool=3,n=2", Some(1), 2));
            v.push(it("indep_race", "pool=3,n=3", Some(0), 1));
            // several pool threads die in panics while one object stays blocked: free objects are still served
            for keep in [0, 1, 2] {
                v.push(it("panic_many", &format!("pool=3,keep={}", keep), Some(if keep == 0 { 1 } else { 0 }), 2));
            }
            v.push(it("panic_many", "pool=2,keep=1", Some(2), 3));
            // a run-on-wake task whose wake-up gets stuck on another, busy object must not hold up the woken queue
            v.push(it("indep_wake", "pool=2", Some(2), 3));
            v.push(it("indep_wake", "pool=3,raw=0", Some(1), 2));
            // the maximum is raised by two or more while several objects wait in the schedule and the first of them blocks
            v.push(it("indep_raise", "pool=1,to=3", Some(2), 3));
            v.push(it("indep_raise", "pool=0,to=2", Some(2), 3));
            v.push(it("indep_raise", "pool=1,to=4", Some(0), 1));
            // a caller is despawning surplus threads (one of them pinned) while free objects are used
            v.push(it("indep_despawn", "pool=2,keep=1", Some(2), 3));
            for keep in [0, 1, 2] {
                v.push(it("indep_despawn", &format!("pool=3,keep={}", keep), Some(1), 2));
            }
        }
        "C11" => {
            for n in [0, 1, 2] {
                for pat in [0, 1, 2] {
                    if (n == 0 && pat != 1) || (pat == 2 && n < 2) {
                        continue;
                    }
                    for conc in [0, 1, 2] {
                        v.push(it("pipe_in_items", &format!("pool=1,n={},pat={},conc={}", n, pat, conc), Some(if n == 2 && conc == 1 { 1 } else { 2 }), if n == 2 { 2 } else { 3 }));
                    }
                }
            }
            v.push(it("pipe_in_items", "pool=1,n=3,pat=2,conc=1", None, 2));
            // long inputs at a low preemption bound: thresholds (batch sizes, buffer limits) hide beyond small n
            v.push(it("pipe_in_items", "pool=1,n=40,pat=0,conc=0", Some(0), 1));
            v.push(it("pipe_in_items", "pool=1,n=24,pat=1,conc=0", Some(0), 1));
            v.push(it("pipe_in_items", "pool=1,n=20,pat=2,conc=1", Some(0), 1));
            v.push(it("pipe_in_items", "pool=0,n=20,pat=0,conc=1", Some(0), 1));
            v.push(it("pipe_in_items", "pool=2,n=2,pat=1,conc=1", Some(1), 2));
            v.push(it("pipe_in_items", "pool=1,n=2,pat=1,conc=0,pin=1", Some(2), 3));
            v.push(it("pipe_in_items", "pool=1,n=1,pat=9,conc=0,dropmid=1", Some(2), 3));
            for n in [0, 1, 2] {
                v.push(it("pipe_in_items", &format!("pool=1,n={},pat=1,conc=0,late=1", n), Some(2), 3));
            }
            v.push(it("pipe_in_items", "pool=1,n=2,pat=0,conc=1,late=1", Some(1), 2));
            // inputs that yield cooperatively (wake themselves from inside poll_next)
            v.push(it("pipe_in_items", "pool=1,n=2,pat=1,conc=1,sinpoll=2", Some(1), 2));
            v.push(it("pipe_in_items", "pool=1,n=1,pat=1,conc=0,fin=1,sinpoll=1", Some(2), 3));
            v.push(it("pipe_in_items", "pool=0,n=1,pat=0,conc=1,sinpoll=1", Some(2), 3));
            // cooperative yields: the input wakes its caller, registers nothing and says Pending although items are ready (seed C11-j)
            v.push(it("pipe_in_items", "pool=1,n=2,pat=0,conc=0,syield=1", Some(2), 3));
            v.push(it("pipe_in_items", "pool=1,n=2,pat=1,conc=1,syield=2", Some(1), 2));
            v.push(it("pipe_in_items", "pool=0,n=1,pat=0,conc=1,syield=1", Some(2), 3));
            v.push(it("pipe_in_items", "pool=1,n=1,pat=1,conc=0,fin=1,syield=1", Some(2), 3));
            // the input wakes its own waker from inside poll_next, after the last owner of the Desync has gone
            v.push(it("pipe_in_items", "pool=1,n=1,pat=9,conc=0,dropmid=1,inpoll=1", Some(2), 3));
            v.push(it("pipe_in_items", "pool=2,n=1,pat=9,conc=0,dropmid=1,inpoll=2", Some(1), 2));
            // the producer wakes under a lock that the input stream's destructor takes
            v.push(it("pipe_in_items", "pool=1,n=1,pat=1,conc=0,fin=1,wl=1", Some(2), 3));
            v.push(it("pipe_in_items", "pool=1,n=1,pat=1,conc=0,fin=0,wl=1", Some(2), 3));
            v.push(it("pipe_in_items", "pool=2,n=2,pat=1,conc=2,fin=1,wl=1", Some(1), 2));
            v.push(it("pipe_in_items", "pool=2,n=1,pat=1,conc=2,late=1", Some(1), 2));
            v.push(it("pipe_in_items", "pool=2,n=1,pat=9,conc=0,dropmid=1", Some(1), 2));
            v.push(it("pipe_in_items", "pool=1,n=1,pat=1,conc=2,pin=1", Some(2), 3));
            v.push(it("pipe_in_items", "pool=2,n=2,pat=2,conc=0,pin=1", Some(1), 2));
            v.push(it("pipe_in_items", "pool=0,n=2,pat=1,conc=1", Some(2), 3));
            for n in [0, 1, 2] {
                v.push(it("pipe_in_items", &format!("pool=1,n={},pat=1,conc=2,fin=1", n), Some(2), 3));
            }
        }
        "C12" => {
            for n in [0, 1, 2, 3] {
                for d in [1, 2] {
                    for pat in [0, 1, 2] {
                        if (pat == 2 && n < 2) || (n == 0 && pat == 2) {
                            continue;
                        }
                        v.push(it("pipe_out", &format!("pool=1,n={},d={},pat={}", n, d, pat), Some(2), 3));
                    }
                }
            }
            v.push(it("pipe_out", "pool=2,n=2,d=1,pat=1", Some(1), 2));
            for what in [0, 1] {
                v.push(it("pipe_rewake", &format!("pool=1,what={}", what), Some(2), 3));
                v.push(it("pipe_rewake", &format!("pool=2,what={}", what), Some(1), 2));
            }
            for d in [1, 2, 3, 4, 5] {
                v.push(it("pipe_partial", &format!("pool=1,d={},r=1", d), Some(if d <= 2 { 2 } else { 1 }), if d <= 3 { 3 } else { 2 }));
            }
            v.push(it("pipe_partial", "pool=1,d=5,r=2", Some(1), 2));
            v.push(it("pipe_partial", "pool=2,d=3,r=1", Some(1), 2));
            v.push(it("pipe_out", "pool=1,n=2,d=1,pat=1,sinpoll=2", Some(1), 2));
            v.push(it("pipe_out", "pool=1,n=1,d=2,pat=0,sinpoll=1", Some(2), 3));
            v.push(it("pipe_out", "pool=1,n=2,d=1,pat=1,syield=2", Some(2), 3));
            v.push(it("pipe_out", "pool=1,n=2,d=2,pat=0,syield=1", Some(2), 3));
            // the depth is changed by the consumer after its first read (raised, lowered)
            v.push(it("pipe_out", "pool=1,n=4,d=1,pat=0,d2=3", Some(2), 3));
            v.push(it("pipe_out", "pool=1,n=4,d=3,pat=0,d2=1", Some(2), 3));
            v.push(it("pipe_out", "pool=1,n=3,d=1,pat=2,d2=2", Some(1), 2));
            // ... or before its first read, with the producer already throttled (seed C12-k)
            v.push(it("pipe_out", "pool=1,n=3,d=1,pat=1,d2=3,d2at=0", Some(2), 3));
            v.push(it("pipe_out", "pool=1,n=3,d=2,pat=1,d2=1,d2at=0", Some(2), 3));
            v.push(it("pipe_out", "pool=2,n=3,d=1,pat=2,d2=3,d2at=0", Some(1), 2));
            v.push(it("pipe_partial", "pool=1,d=3,r=1,sinpoll=1", Some(1), 2));
            // the pipe's producer is the task that awaits a future_sync on the same Desync (no pool thread); yielding processing
            for (n, y) in [(1, 1), (2, 1), (2, 2), (3, 1)] {
                v.push(it("pipe_fs", &format!("pool=0,n={},y={}", n, y), Some(2), 3));
            }
            v.push(it("pipe_fs", "pool=0,n=2,y=1,inl=1", Some(2), 3));
            v.push(it("pipe_steal", "pool=1", Some(2), 3));
            v.push(it("pipe_steal", "pool=2", Some(1), 2));
            v.push(it("pipe_out", "pool=1,n=4,d=3,pat=2", None, 2));
            v.push(it("pipe_out", "pool=1,n=4,d=1,pat=1", None, 2));
            // long inputs, default-sized and larger buffers, at a low preemption bound
            v.push(it("pipe_out", "pool=1,n=12,d=5,pat=0", Some(0), 1));
            v.push(it("pipe_out", "pool=1,n=12,d=5,pat=1", Some(0), 1));
            v.push(it("pipe_out", "pool=1,n=40,d=8,pat=0", Some(0), 1));
            v.push(it("pipe_out", "pool=1,n=24,d=3,pat=2", Some(0), 1));
        }
        "C13" => {
            for pool in [1, 2] {
                v.push(it("suspend", &format!("pool={},resume=0,sync=0,stale=1", pool), Some(if pool == 1 { 2 } else { 1 }), if pool == 1 { 3 } else { 2 }));
            }
            v.push(it("suspend", "pool=1,resume=1,sync=1,stale=1", Some(1), 2));
            for resume in [0, 1] {
                v.push(it("suspend", &format!("pool=1,resume={},sync=0,stale=2", resume), Some(2), 3));
            }
            v.push(it("suspend", "pool=1,resume=0,sync=1,stale=2", Some(1), 2));
            v.push(it("suspend", "pool=2,resume=0,sync=0,stale=2", Some(1), 2));
            // another thread schedules on the queue while the suspend request is being made
            for pool in [0, 1, 2] {
                v.push(it("suspend", &format!("pool={},resume=0,sync=0,race=1", pool), Some(if pool == 2 { 1 } else { 2 }), if pool == 2 { 2 } else { 3 }));
            }
            v.push(it("suspend", "pool=1,resume=1,sync=1,race=1", Some(1), 2));
            for pool in [0, 1, 2] {
                for resume in [0, 1] {
                    for sync in [0, 1] {
                        v.push(it("suspend", &format!("pool={},resume={},sync={}", pool, resume, sync), Some(if pool == 2 { 1 } else { 2 }), if pool == 2 { 2 } else { 3 }));
                    }
                }
            }
        }
        "C15" => {
            for ctx in 0..4 {
                for pool in [0, 1, 2, 3] {
                    if pool == 0 && (ctx == 0 || ctx == 3) {
                        continue;
                    }
                    v.push(it("panic_contain", &format!("pool={},ctx={}", pool, ctx), Some(if pool <= 1 { 2 } else if pool == 2 { 1 } else { 0 }), if pool <= 1 { 3 } else if pool == 2 { 2 } else { 1 }));
                }
            }
            // the panicking operation's own wake-up arrived during the poll (AwokenWhileRunning), and the
            // panicking future run by a thread draining inside sync
            // (ctx 4 only with no pool threads: a sync that is already waiting when another runner's operation panics is
            // outside the property, which speaks of attempts made after the unwinding has finished)
            for (ctx, pool) in [(3, 1), (3, 2), (2, 0), (2, 1), (4, 0)] {
                v.push(it("panic_contain", &format!("pool={},ctx={},selfwake=1", pool, ctx), Some(if pool == 2 { 1 } else { 2 }), if pool == 2 { 2 } else { 3 }));
            }
            v.push(it("panic_contain", "pool=0,ctx=4", Some(2), 3));
            v.push(it("panic_contain", "pool=0,ctx=5", Some(2), 3));
            v.push(it("panic_contain", "pool=0,ctx=4,revive=1", Some(2), 3));
            // the panicking operation owns a guard that uses a healthy object while the panic unwinds (seed C15-k)
            for (ctx, pool) in [(0, 1), (0, 2), (1, 0), (1, 1), (2, 0), (2, 1), (3, 1), (4, 0), (5, 0)] {
                v.push(it("panic_contain", &format!("pool={},ctx={},guard=1", pool, ctx), Some(if pool == 2 { 1 } else { 2 }), if pool == 2 { 2 } else { 3 }));
            }
            for (pool, keep) in [(2, 0), (2, 1), (3, 0), (3, 2)] {
                v.push(it("panic_many", &format!("pool={},keep={}", pool, keep), Some(1), 2));
            }
        }
        "C15x" => {}
        "C16" => {
            for mode in 0..5 {
                for pool in [1, 2] {
                    v.push(it("pipe_drop_output", &format!("pool={},mode={}", pool, mode), Some(if pool == 1 { 2 } else { 1 }), if pool == 1 { 3 } else { 2 }));
                }
                // ... with an input that yields cooperatively (wakes itself from inside poll_next) once
                v.push(it("pipe_drop_output", &format!("pool=1,mode={},sinpoll=1", mode), Some(1), 2));
                v.push(it("pipe_drop_output", &format!("pool=1,mode={},syield=1", mode), Some(1), 2));
            }
        }
        "C17" => {
            for pool in [0, 1, 2, 3] {
                v.push(it("pool_census", &format!("pool={},n=2,phases=0", pool), Some(if pool >= 2 { 1 } else { 2 }), if pool >= 2 { 2 } else { 3 }));
                v.push(it("pool_census", &format!("pool={},n=2,phases=2", pool), Some(1), if pool >= 2 { 1 } else { 2 }));
            }
            for pool in [1, 2] {
                v.push(it("pool_census", &format!("pool={},n=2,phases=3", pool), Some(if pool == 1 { 2 } else { 1 }), if pool == 1 { 3 } else { 2 }));
            }
            v.push(it("pool_census", "pool=1,n=2,phases=4", Some(1), 2));
            // the despawned threads' jobs schedule more work while the caller is joining them
            v.push(it("pool_census", "pool=1,n=2,phases=3,nest=1", Some(2), 3));
            v.push(it("pool_census", "pool=2,n=2,phases=3,nest=1", Some(1), 2));
            v.push(it("indep_despawn", "pool=2,keep=1", Some(1), 2));
            v.push(it("indep_despawn", "pool=3,keep=2", Some(1), 2));
            v.push(it("pool_census", "pool=2,n=2,phases=4", Some(0), 1));
            // the public set_max_threads (eager thread start) instead of the hook, also racing with scheduling calls
            for pool in [0, 1, 2] {
                v.push(it("pool_census", &format!("pool={},n=2,phases=2,api=1", pool), Some(if pool == 2 { 0 } else { 1 }), if pool == 2 { 0 } else { 2 }));
            }
            v.push(it("pool_census", "pool=0,n=2,phases=5,api=1", Some(1), 2));
            v.push(it("pool_census", "pool=1,n=1,phases=5,api=1", Some(0), 1));
            v.push(it("pool_census", "pool=1,n=2,phases=5,api=1", Some(0), 1));
            v.push(it("pool_census", "pool=2,n=1,phases=5,api=1", None, 0));
            v.push(it("pool_census", "pool=1,n=2,phases=3,api=1", Some(1), 2));
            v.push(it("pool_census", "pool=1,n=2,phases=4,api=1", Some(0), 1));
            v.push(it("pool_census", "pool=1,n=2,phases=0,dbg=1", Some(1), 2));
            v.push(it("pool_census", "pool=2,n=2,phases=0,dbg=1", Some(0), 1));
            v.push(it("pool_census", "pool=1,n=3,phases=0", Some(1), 2));
            v.push(it("pool_census", "pool=2,n=3,phases=0", Some(0), 1));
            v.push(it("pool_census", "pool=0,n=3,phases=0", Some(2), 3));
            v.extend(prog_sweep(&["D", "Dn", "Dx"], &[0, 1, 2], Some(1), 1, None, 3));
        }
        "C14" => {
            // explored in the AddressSanitizer build (see check.rs): canaries + ASan on every interleaving
            v.push(it("sync_states", "pool=1,st=8,n=2,raw=0", Some(2), 3));
            v.push(it("sync_states", "pool=0,st=0,n=2,raw=0", Some(2), 3));
            v.push(it("sync_states", "pool=1,st=5,n=1,raw=0", Some(2), 3));
            for state in [1, 3] {
                for dropper in 0..4 {
                    v.push(it("drop_obj", &format!("pool=1,state={},dropper={}", state, dropper), Some(2), 3));
                }
            }
            v.push(it("drop_obj", "pool=1,state=2,dropper=3", Some(2), 3));
            v.push(it("drop_obj", "pool=0,state=5,dropper=3", Some(2), 3));
            v.push(it("drop_obj", "pool=1,state=2,dropper=5", Some(2), 3));
            v.push(it("drop_obj", "pool=1,state=3,dropper=6", Some(2), 3));
            v.push(it("drop_obj", "pool=1,state=6,dropper=4", Some(1), 2));
            v.push(it("drop_obj", "pool=0,state=6,dropper=7,selfwake=1", Some(2), 3));
            v.push(it("fd_result", "pool=1,mode=3,raw=0", Some(2), 2));
            v.push(it("fd_result", "pool=1,mode=1,raw=0", Some(1), 2));
            for mode in 0..4 {
                v.push(it("fs_cancel", &format!("pool=1,mode={},raw=0", mode), Some(2), 2));
            }
            v.push(it("try_paths", "pool=1,path=0,raw=0", Some(1), 2));
            v.push(it("pipe_in_items", "pool=1,n=1,pat=1,conc=2,fin=1", Some(1), 2));
            v.push(it("pipe_out", "pool=1,n=2,d=1,pat=1", Some(1), 2));
            v.push(it("pipe_drop_output", "pool=1,mode=0", Some(1), 2));
            v.push(it("pipe_drop_output", "pool=1,mode=2", Some(1), 2));
            v.push(it("panic_contain", "pool=1,ctx=1", Some(1), 2));
            v.push(it("panic_contain", "pool=0,ctx=5", Some(2), 3));
            v.push(it("panic_contain", "pool=0,ctx=4", Some(1), 2));
            v.push(it("panic_contain", "pool=0,ctx=4,revive=1", Some(2), 3));
            v.push(it("panic_contain", "pool=1,ctx=4,revive=1", Some(1), 2));
            for state in [0, 1, 2] {
                v.push(it("drop_plain", &format!("pool=1,state={}", state), Some(2), 3));
            }
            // a blocking wait nested inside a blocking wait on one thread (seed C14-j)
            for inner in [0, 2] {
                v.push(it("nested_wait", &format!("pool=0,inner={},seq=1,raw=0", inner), Some(2), 3));
            }
            v.push(it("nested_wait", "pool=1,inner=0,seq=1,raw=0", Some(1), 2));
            v.extend(prog_sweep(&[], &[1], Some(1), 2, None, 2));
            v.extend(prog_pairs(&[], "pool=1,busy=1,raw=0", false, None, 1, 1));
            v.extend(prog_sweep(&[], &[0, 2], None, 1, None, 1));
        }
        _ => {}
    }
    v
}

/// Violation class = first word of a violation part
pub fn class_of(part: &str) -> &str {
    part.split(|c: char| c == ' ' || c == ':').next().unwrap_or("")
}

fn mentions_future_sync(part: &str) -> bool {
    part.contains("FS") || part.contains("in:await-fs")
}

/// Properties to which a violation part observed in `scenario` is attributed
pub fn owners(scenario: &str, part: &str) -> Vec<&'static str> {
    let class = class_of(part);
    let liveness: Vec<&'static str> = match scenario {
        "sync_states" | "f3_sync_sync" | "f3_nested_sync" | "sync_wipe" => vec!["C04", "C03"],
        "wake_ctx" | "wake_stale_entry" => vec!["C06"],
        "fd_result" | "fd_two" => vec!["C07", "C04", "C03"],
        "fs_cancel" | "fs_nested" => vec!["C08"],
        "try_paths" | "f1_try_sync_idle_nonempty" => vec!["C09", "C03"],
        "indep" | "indep_stale" | "indep_race" | "indep_despawn" | "indep_raise" | "indep_wake" => vec!["C10"],
        "drop_obj" => vec!["C05"],
        "suspend" => vec!["C13"],
        "panic_contain" => vec!["C15", "C03"],
        "panic_many" => vec!["C15", "C10", "C03"],
        "pool_census" => vec!["C17", "C03"],
        "excl_susp" => vec!["C06", "C01", "C09", "C08"],
        "excl_drop" => vec!["C07", "C01", "C04"],
        "repoll" => vec!["C07", "C01", "C04"],
        "nested_wait" => vec!["C04", "C03"],
        "drop_plain" => vec!["C05"],
        "claim_others" => vec!["C06", "C10", "C03"],
        "order_ctx" => vec!["C02", "C03"],
        "pipe_in_items" => vec!["C11", "C03"],
        "pipe_out" | "pipe_steal" | "pipe_rewake" | "pipe_partial" | "pipe_fs" => vec!["C12", "C03"],
        "pipe_drop_output" => vec!["C16"],
        "f2_dormant_race" | "desync_then_sync" | "stale_entry" => vec!["C03"],
        "prog" => {
            let mut v = vec!["C03", "C06"];
            if part.contains("in:sync") || part.contains("in:fd.sync") {
                v.push("C04");
            }
            if part.contains("in:await-fd") || part.contains("in:fd.sync") || part.contains("in:await-after") {
                v.push("C07");
            }
            if part.contains("in:await-fs") {
                v.push("C08");
            }
            if part.contains(":T ") || part.contains(":T'") {
                v.push("C09");
            }
            v
        }
        _ => vec![],
    };
    let mut v: Vec<&'static str> = match class {
        "OVERLAP" => {
            // two operations inside one object at once = aliased &mut T: exclusivity (C01) and memory safety (C14)
            let mut v = vec!["C01", "C14"];
            if part.contains("pipe-item") {
                v.push("C11");
            }
            if mentions_future_sync(part) {
                v.push("C08");
            }
            v
        }
        "ORDER" => {
            let mut v = vec!["C02"];
            if scenario == "suspend" {
                v.push("C13");
            }
            if scenario == "drop_obj" {
                v.push("C05");
            }
            if mentions_future_sync(part) {
                v.push("C08");
            }
            v
        }
        "STRANDED" | "UNFINISHED" | "NOT-QUIET" | "DUPLICATE" => {
            let mut v = vec!["C03"];
            if part.contains("polled once and then left alone") {
                // the wake-up arrived and nobody polled the operation again
                v.push("C06");
            }
            v.extend(liveness.iter());
            v
        }
        "SYNC-RESULT" | "SYNC-ONCE" | "SYNC-WINDOW" => {
            if part.contains(":T ") || part.contains(" T ") { vec!["C04", "C09"] } else { vec!["C04"] }
        }
        "HALF-RUN" | "TRY-BLOCKED" => vec!["C09"],
        "FUTURE-RESULT" | "RESULT-BEFORE-END" => {
            if mentions_future_sync(part) { vec!["C08"] } else { vec!["C07"] }
        }
        "CANCEL" => vec!["C08"],
        "USE-AFTER-DROP" | "DROP-WHILE-BUSY" | "DROP-COUNT" | "DROP-EARLY" => vec!["C05", "C14"],
        "CANARY" => vec!["C14", "C05"],
        "PIPE-LEAK" => vec!["C16"],
        "PIPE-IN-ITEMS" | "PIPE-IN-STRONG" | "PIPE-IN-LEAK" => vec!["C11"],
        "PIPE-OUT-ITEMS" | "PIPE-OUT-LEAK" | "PIPE-OUT-WAKE" => vec!["C12"],
        "CENSUS" => vec!["C17"],
        "SUSPEND-EARLY" | "SUSPEND-LEAK" | "SUSPEND-ORDER" | "SUSPEND-CANCELED" => vec!["C13"],
        "PANIC-SILENT" | "PANIC-BLOCKED" | "PANIC-CAPACITY" | "PANIC-LOST" => vec!["C15"],
        "INDEP" => vec!["C10"],
        "SYNC-STALL" => vec!["C04"],
        "WAKE-LOST" => vec!["C06"],
        // hangs, unplanned panics and harness assertion failures: the scenario's liveness owners
        "DEADLOCK" | "MAXSTEPS" | "MAIN-PANIC" | "PANIC" | "THREAD-PANIC" | "TOO-MANY-THREADS" => liveness.clone(),
        _ => liveness.clone(),
    };
    // memory-safety property: any failure seen in the sanitizer build's canary classes is C14's as well
    v.sort();
    v.dedup();
    v
}
