//! Machinery self-tests: tiny programs over the vsched primitives with known outcome sets
use crate::h::*;
use std::sync::Arc;
use vsched::rt;
use vsched::sync::{Condvar, Mutex};

pub fn list() -> Vec<(&'static str, super::Scenario)> {
    vec![
        ("st_lost_update", st_lost_update),
        ("st_lost_notify", st_lost_notify),
        ("st_try_lock", st_try_lock),
        ("st_disconnect", st_disconnect),
        ("st_park_token", st_park_token),
        ("st_poison", st_poison),
        ("st_notify_choice", st_notify_choice),
        ("st_segv", st_segv),
    ]
}

/// two threads increment non-atomically: final value 1 (lost update) needs one preemption
fn st_lost_update(_cfg: &Cfg) {
    let m = Arc::new(Mutex::new(0u32));
    let hs: Vec<_> = (0..2)
        .map(|_| {
            let m = m.clone();
            spawn(move || {
                let v = *m.lock().unwrap();
                *m.lock().unwrap() = v + 1;
            })
        })
        .collect();
    for h in hs {
        h.join().unwrap();
    }
    rt::outcome(format!("final={}", *m.lock().unwrap()));
}

/// the waiter tests the flag and waits in two separate critical sections: the notification can be lost
fn st_lost_notify(_cfg: &Cfg) {
    let p = Arc::new((Mutex::new(false), Condvar::new(), Mutex::new(())));
    let p2 = p.clone();
    let waiter = spawn(move || {
        let ready = *p2.0.lock().unwrap();
        if !ready {
            let g = p2.2.lock().unwrap();
            let _g = p2.1.wait(g).unwrap();
        }
    });
    *p.0.lock().unwrap() = true;
    p.1.notify_one();
    waiter.join().unwrap();
    rt::outcome("done".into());
}

/// try_lock must be able to observe both "held" and "free"
fn st_try_lock(_cfg: &Cfg) {
    let m = Arc::new(Mutex::new(0u32));
    let m2 = m.clone();
    let t = spawn(move || {
        let mut g = m2.lock().unwrap();
        *g += 1;
    });
    let got = m.try_lock().is_ok();
    t.join().unwrap();
    rt::outcome(format!("try_lock={}", got));
}

/// recv returns Err once every sender is gone, Ok for what was sent before
fn st_disconnect(_cfg: &Cfg) {
    let (tx, rx) = vsched::sync::mpsc::channel::<u32>();
    let t = spawn(move || {
        tx.send(7).unwrap();
    });
    let a = rx.recv();
    let b = rx.recv();
    t.join().unwrap();
    rt::outcome(format!("{:?},{:?}", a.ok(), b.is_err()));
}

/// an unpark before the park leaves a token: never blocks
fn st_park_token(_cfg: &Cfg) {
    let me = vsched::thread::current();
    let t = spawn(move || me.unpark());
    vsched::thread::park();
    t.join().unwrap();
    rt::outcome("parked".into());
}

/// a panic while holding a guard poisons the mutex
fn st_poison(_cfg: &Cfg) {
    let m = Arc::new(Mutex::new(0u32));
    let m2 = m.clone();
    let t = vsched::thread::spawn(move || {
        let _g = m2.lock().unwrap();
        panic!("PLANNED-PANIC poison");
    });
    let joined = t.join().is_err();
    rt::outcome(format!("panicked={},poisoned={}", joined, m.lock().is_err()));
}

/// notify_one with two waiters: which one is woken is an explored choice
fn st_notify_choice(_cfg: &Cfg) {
    let p = Arc::new((Mutex::new(0u32), Condvar::new()));
    let woken = Arc::new(std::sync::Mutex::new(vec![]));
    let hs: Vec<_> = (0..2)
        .map(|i| {
            let (p, woken) = (p.clone(), woken.clone());
            spawn(move || {
                let mut g = p.0.lock().unwrap();
                while *g == 0 {
                    g = p.1.wait(g).unwrap();
                }
                *g -= 1;
                woken.lock().unwrap().push(i);
            })
        })
        .collect();
    rt::quiesce();
    *p.0.lock().unwrap() = 1;
    p.1.notify_one();
    rt::quiesce();
    let first = woken.lock().unwrap().clone();
    *p.0.lock().unwrap() = 1;
    p.1.notify_all();
    for h in hs {
        h.join().unwrap();
    }
    rt::outcome(format!("first={:?}", first));
}

/// a deliberate wild write inside a job: the worker process dies, which must become a CRASH verdict
fn st_segv(cfg: &Cfg) {
    setup(cfg.pool());
    let w = World::new();
    let q = w.raw();
    w.sync(&q, "S", Body::with(|| unsafe {
        std::ptr::write_volatile(8 as *mut u64, 1);
    }));
    shutdown();
}
