//! Generated programs: every program of shape [[a],[b]] or [[a,b],[c]] over the operation alphabet,
//! all universal oracles armed (C01 exclusivity, C02 order, C03 once/quiet, C04 sync, C07/C08 results,
//! C09 try_sync, C17 census).  Encoded in the cfg as a, b, c (c = -1: two single-op threads); with `t`=3 / `t`=4 the
//! shape is [[a],[b],[c]] / [[a],[b],[c],[d]] (three or four caller threads with one operation each); with `t`=1 it is
//! [[a,b,c]]: one context issuing three operations in sequence while the environment fires the events.
use crate::h::*;
use vsched::rt;

pub const OPS: &[&str] = &["D", "Dn", "Dx", "S", "Sn", "T", "FDa", "FDd", "FDs", "FSa", "FSx", "AF", "FDx", "FDk"];

pub fn op_code(name: &str) -> i64 {
    OPS.iter().position(|o| *o == name).unwrap() as i64
}

/// ops that complete on their own thread whatever the pool does (usable with no pool threads from
/// several contexts)
pub fn self_driving(code: i64) -> bool {
    matches!(OPS[code as usize], "D" | "Dn" | "S" | "Sn" | "T" | "FDs")
}

pub fn list() -> Vec<(&'static str, super::Scenario)> {
    vec![("prog", prog)]
}

fn run_op(w: &std::sync::Arc<World>, o: &Obj, x: &Obj, code: i64, tag: &str, gate: &Gate) {
    let name = format!("{}:{}", tag, OPS[code as usize]);
    match OPS[code as usize] {
        "D" => {
            w.desync(o, &name, Body::plain());
        }
        "Dn" => {
            let (w2, o2, n2) = (w.clone(), o.clone(), format!("{}/nested", name));
            w.desync(o, &name, Body::with(move || { w2.desync(&o2, &n2, Body::plain()); }));
        }
        "Dx" => {
            let (w2, x2, n2) = (w.clone(), x.clone(), format!("{}/xsync", name));
            w.desync(o, &name, Body::with(move || { w2.sync(&x2, &n2, Body::plain()); }));
        }
        "S" => {
            w.sync(o, &name, Body::plain());
        }
        "Sn" => {
            let (w2, o2, n2) = (w.clone(), o.clone(), format!("{}/nested", name));
            w.sync(o, &name, Body::with(move || { w2.desync(&o2, &n2, Body::plain()); }));
        }
        "T" => {
            w.try_sync(o, &name, Body::plain());
        }
        "FDa" => w.future_desync(o, &name, Body::gated(gate)).wait(),
        "FDd" => w.future_desync(o, &name, Body::gated(gate)).detach(),
        "FDs" => w.future_desync(o, &name, Body::plain()).sync(),
        "FSa" => w.future_sync(o, &name, Body::gated(gate)).wait(),
        "FSx" => w.future_sync(o, &name, Body::gated(gate)).poll_then_drop(1),
        "AF" => w.after(o, &name, gate, Body::plain()).detach(),
        "FDx" => w.future_desync(o, &name, Body::gated(gate)).poll_then_drop(1),
        "FDk" => {
            // polled once, then kept without being polled again or dropped until everything has gone quiet
            let mut h = w.future_desync(o, &name, Body::gated(gate));
            let mut f = Box::pin(h.fut.take().unwrap());
            let (wk, _c) = counting_waker();
            let mut cx = futures::task::Context::from_waker(&wk);
            use std::future::Future;
            match f.as_mut().poll(&mut cx) {
                futures::task::Poll::Ready(r) => {
                    if r != Ok(h.token) {
                        rt::violation(format!("FUTURE-RESULT {} resolved to the wrong value", name));
                    }
                }
                _ => w.kept.lock().unwrap().push((f, h.token, h.op, name.clone())),
            }
        }
        _ => unreachable!(),
    }
}

fn prog(cfg: &Cfg) {
    let pool = cfg.pool();
    setup(pool);
    let (a, b, c) = (cfg.get("a"), cfg.get("b"), cfg.opt("c", -1));
    let raw = cfg.opt("raw", 0) == 1;
    let w = World::new();
    w.prelude(cfg);
    let (o, x) = if raw { (w.raw(), w.raw()) } else { (w.desync_obj(), w.desync_obj()) };
    let gates = [Gate::new(), Gate::new(), Gate::new(), Gate::new()];
    let nthreads = cfg.opt("t", 2);
    let d = cfg.opt("d", -1);
    // `busy` pool threads are pinned by blocking jobs on other objects until the environment releases them
    let busy = cfg.opt("busy", 0);
    let mut pins = vec![];
    for i in 0..busy {
        let bq = w.raw();
        let bg = BGate::new();
        w.desync(&bq, &format!("pin{}", i), Body::blocking(&bg));
        pins.push((bq, bg));
    }
    let t1 = {
        let (w, o, x, g0, g1, g2) = (w.clone(), o.clone(), x.clone(), gates[0].clone(), gates[1].clone(), gates[2].clone());
        spawn(move || {
            run_op(&w, &o, &x, a, "t1a", &g0);
            if (c >= 0 && nthreads == 2) || nthreads == 1 {
                run_op(&w, &o, &x, b, "t1b", &g1);
            }
            if c >= 0 && nthreads == 1 {
                // `t`=1: a single context issues a, b, c in sequence (the only shape in which awaited futures are promised to
                // make progress with no pool thread, whatever else that context has queued on the object)
                run_op(&w, &o, &x, c, "t1c", &g2);
            }
        })
    };
    let t2 = {
        let (w, o, x, g2) = (w.clone(), o.clone(), x.clone(), gates[2].clone());
        let code = if c >= 0 && nthreads == 2 { c } else { b };
        spawn(move || {
            if nthreads >= 2 {
                run_op(&w, &o, &x, code, "t2a", &g2)
            }
        })
    };
    let mut more = vec![];
    if nthreads >= 3 {
        let (w, o, x, g) = (w.clone(), o.clone(), x.clone(), gates[1].clone());
        more.push(spawn(move || run_op(&w, &o, &x, c, "t3a", &g)));
    }
    if nthreads >= 4 {
        let (w, o, x, g) = (w.clone(), o.clone(), x.clone(), gates[3].clone());
        more.push(spawn(move || run_op(&w, &o, &x, d, "t4a", &g)));
    }
    // the environment: every external event eventually happens
    for g in &gates {
        g.open();
    }
    if cfg.opt("stale", 0) == 1 {
        // every waker the gates were ever given fires once more, whatever its operation is doing by now
        for g in &gates {
            g.fire_stale();
        }
    }
    if cfg.opt("late", 0) == 0 {
        for (_, bg) in &pins {
            bg.open();
        }
    }
    join(t1, "t1");
    join(t2, "t2");
    for (i, t) in more.into_iter().enumerate() {
        join(t, &format!("t{}", i + 3));
    }
    if cfg.opt("late", 0) == 1 {
        // the pinned pool threads only become free after every caller has returned
        rt::quiesce();
        for (_, bg) in &pins {
            bg.open();
        }
    }
    rt::quiesce();
    // futures that were polled once and left alone: with a pool thread around their operations have completed all the same
    let kept: Vec<_> = std::mem::take(&mut *w.kept.lock().unwrap());
    for (f, token, op, name) in kept {
        if pool > 0 && cfg.opt("late", 0) == 0 && w.rec.get(op).ends.is_empty() {
            rt::violation(format!("STRANDED {} was polled once and then left alone: a pool thread was available but the operation never completed", name));
        }
        let prev = rt::note(&format!("in:await-fd {}", name));
        let r = block_on(f);
        rt::note(&prev);
        if r != Ok(token) {
            rt::violation(format!("FUTURE-RESULT {} (polled once, awaited late) resolved to the wrong value", name));
        }
    }
    if pool == 0 {
        // with no pool threads queued work is carried by callers: kick both objects
        // (twice: work scheduled from inside a job that the first kick ran lands behind that kick)
        for round in 0..2 {
            w.sync(&o, &format!("kick-o{}", round), Body::plain());
            w.sync(&x, &format!("kick-x{}", round), Body::plain());
        }
    }
    w.check_quiet();
    expect_idle(&o);
    expect_idle(&x);
    for (bq, _) in &pins {
        expect_idle(bq);
    }
    rt::outcome(w.rec.run_order().join(">"));
    check_no_unplanned_panics();
    drop(o);
    drop(x);
    if !raw && w.payload_drops.load(std::sync::atomic::Ordering::SeqCst) != 2 {
        rt::violation(format!("DROP-COUNT {} payload drops for 2 objects", w.payload_drops.load(std::sync::atomic::Ordering::SeqCst)));
    }
    shutdown();
}
