//! First scenarios: the four defects of DESIGN section 7 and simple sanity programs
use crate::h::*;
use vsched::rt;

pub fn list() -> Vec<(&'static str, super::Scenario)> {
    vec![
        ("desync_then_sync", desync_then_sync),
        ("f1_try_sync_idle_nonempty", f1_try_sync_idle_nonempty),
        ("f2_dormant_race", f2_dormant_race),
        ("f3_sync_sync", f3_sync_sync),
        ("f3_nested_sync", f3_nested_sync),
        ("selftest_uaf", selftest_uaf),
    ]
}

/// main: desync A; sync B
fn desync_then_sync(cfg: &Cfg) {
    setup(cfg.pool());
    let w = World::new();
    w.prelude(cfg);
    let q = w.raw();
    w.desync(&q, "A", Body::plain());
    w.sync(&q, "B", Body::plain());
    rt::quiesce();
    w.check_quiet();
    expect_idle(&q);
    check_no_unplanned_panics();
    shutdown();
}

/// F1: T1 sync(q, { desync(q, A) }) || T2 try_sync(q)
fn f1_try_sync_idle_nonempty(cfg: &Cfg) {
    setup(cfg.pool());
    let w = World::new();
    w.prelude(cfg);
    let q = w.raw();
    let (w1, q1) = (w.clone(), q.clone());
    let t1 = spawn(move || {
        let (w2, q2) = (w1.clone(), q1.clone());
        w1.sync(&q1, "S", Body::with(move || { w2.desync(&q2, "A", Body::plain()); }));
    });
    let (w2, q2) = (w.clone(), q.clone());
    let t2 = spawn(move || { w2.try_sync(&q2, "T", Body::plain()); });
    join(t1, "t1");
    join(t2, "t2");
    rt::quiesce();
    if cfg.pool() == 0 {
        w.sync(&q, "kick", Body::plain());
    }
    w.check_quiet();
    expect_idle(&q);
    check_no_unplanned_panics();
    shutdown();
}

/// F2: main desync(qa, A); T1 desync(qb, B)  (pool exactly at its maximum)
fn f2_dormant_race(cfg: &Cfg) {
    setup(cfg.pool());
    let w = World::new();
    w.prelude(cfg);
    let qa = w.raw();
    let qb = w.raw();
    w.desync(&qa, "A", Body::plain());
    let (w1, qb1) = (w.clone(), qb.clone());
    let t1 = spawn(move || { w1.desync(&qb1, "B", Body::plain()); });
    join(t1, "t1");
    rt::quiesce();
    w.check_quiet();
    expect_idle(&qa);
    expect_idle(&qb);
    check_no_unplanned_panics();
    shutdown();
}

/// F3 (simple): two threads calling sync on one queue
fn f3_sync_sync(cfg: &Cfg) {
    setup(cfg.pool());
    let w = World::new();
    w.prelude(cfg);
    let q = w.raw();
    let (w1, q1) = (w.clone(), q.clone());
    let t1 = spawn(move || { w1.sync(&q1, "X", Body::plain()); });
    let (w2, q2) = (w.clone(), q.clone());
    let t2 = spawn(move || { w2.sync(&q2, "Y", Body::plain()); });
    join(t1, "t1");
    join(t2, "t2");
    rt::quiesce();
    w.check_quiet();
    expect_idle(&q);
    check_no_unplanned_panics();
    shutdown();
}

/// F3 (nested): T1 sync(w, X) || pool job on b doing sync(w, Y)
fn f3_nested_sync(cfg: &Cfg) {
    setup(cfg.pool());
    let w = World::new();
    w.prelude(cfg);
    let qw = w.raw();
    let qb = w.raw();
    let (w1, q1) = (w.clone(), qw.clone());
    let t1 = spawn(move || { w1.sync(&q1, "X", Body::plain()); });
    let (w2, q2) = (w.clone(), qw.clone());
    w.desync(&qb, "B", Body::with(move || { w2.sync(&q2, "Y", Body::plain()); }));
    join(t1, "t1");
    rt::quiesce();
    w.check_quiet();
    expect_idle(&qw);
    expect_idle(&qb);
    check_no_unplanned_panics();
    shutdown();
}

/// Machinery self-test only: a deliberate heap use-after-free inside a job (must kill a sanitizer-build worker)
fn selftest_uaf(cfg: &Cfg) {
    setup(cfg.pool());
    let w = World::new();
    w.prelude(cfg);
    let q = w.raw();
    w.sync(&q, "S", Body::with(|| {
        let b = Box::new(41u64);
        let p: *const u64 = &*b;
        drop(b);
        let v = unsafe { std::ptr::read_volatile(p) };
        rt::outcome(format!("{}", v));
    }));
    rt::quiesce();
    shutdown();
}
