//! Targeted scenarios aimed at windows that can be named from the code (DESIGN section 5)
use crate::h::*;
use std::sync::atomic::Ordering as AO;
use std::sync::Arc;
use std::future::Future;
use vsched::rt;

pub fn list() -> Vec<(&'static str, super::Scenario)> {
    vec![
        ("sync_states", sync_states),
        ("wake_ctx", wake_ctx),
        ("fd_result", fd_result),
        ("fd_two", fd_two),
        ("fs_cancel", fs_cancel),
        ("fs_nested", fs_nested),
        ("try_paths", try_paths),
        ("indep", indep),
        ("drop_obj", drop_obj),
        ("suspend", suspend),
        ("panic_contain", panic_contain),
        ("pool_census", pool_census),
        ("excl_susp", excl_susp),
        ("order_ctx", order_ctx),
        ("stale_entry", stale_entry),
        ("excl_drop", excl_drop),
        ("indep_stale", indep_stale),
        ("wake_stale_entry", wake_stale_entry),
        ("indep_race", indep_race),
        ("indep_despawn", indep_despawn),
        ("indep_raise", indep_raise),
        ("indep_wake", indep_wake),
        ("panic_many", panic_many),
        ("sync_wipe", sync_wipe),
        ("repoll", repoll),
        ("nested_wait", nested_wait),
        ("drop_plain", drop_plain),
        ("claim_others", claim_others),
    ]
}

fn mkobj(w: &World, cfg: &Cfg) -> Obj {
    if cfg.opt("raw", 1) == 1 {
        w.raw()
    } else {
        w.desync_obj()
    }
}

fn finish(w: &Arc<World>, objs: &[&Obj], pool: usize) {
    rt::quiesce();
    if pool == 0 {
        // with no pool threads queued work is carried by callers (twice: work scheduled from inside
        // a job that the first kick ran lands behind that kick)
        for round in 0..2 {
            for o in objs {
                w.sync(o, &format!("kick{}", round), Body::plain());
            }
        }
    }
    w.check_quiet();
    for o in objs {
        expect_idle(o);
    }
    check_no_unplanned_panics();
}

/// C04: `n` concurrent sync callers against a queue prepared in state `st`
///  0 idle/empty  1 idle/non-empty window  2 pending  3 running a blocking job  4 running in another sync
///  5 suspended future ahead (WaitingForWake / WaitingForUnpark with pool 0)  7 being polled by a task
///  8 pool saturated by a job that itself blocks in sync on the queue
fn sync_states(cfg: &Cfg) {
    let pool = cfg.pool();
    setup(pool);
    let (st, n) = (cfg.get("st"), cfg.opt("n", 1));
    let w = World::new();
    w.prelude(cfg);
    let q = mkobj(&w, cfg);
    let g = Gate::new();
    let bg = BGate::new();
    let mut hs = vec![];
    let mut others: Vec<Obj> = vec![];
    match st {
        0 => {}
        1 => {
            let (w1, q1) = (w.clone(), q.clone());
            hs.push(spawn(move || {
                let (w2, q2) = (w1.clone(), q1.clone());
                w1.sync(&q1, "S0", Body::with(move || { w2.desync(&q2, "N", Body::plain()); }));
            }));
        }
        2 => {
            w.desync(&q, "D", Body::plain());
        }
        3 => {
            w.desync(&q, "Dblk", Body::blocking(&bg));
        }
        4 => {
            let (w1, q1, bg1) = (w.clone(), q.clone(), bg.clone());
            hs.push(spawn(move || { w1.sync(&q1, "Sblk", Body::blocking(&bg1)); }));
        }
        5 => {
            w.future_desync(&q, "FD", Body { gate: Some(g.clone()), self_wake: cfg.opt("selfwake", 0) == 1, ..Body::default() }).detach();
        }
        7 => {
            let (w1, q1, g1) = (w.clone(), q.clone(), g.clone());
            hs.push(spawn(move || w1.future_desync(&q1, "FD", Body::gated(&g1)).wait()));
        }
        8 => {
            let b = w.raw();
            let (w1, q1) = (w.clone(), q.clone());
            w.desync(&b, "B", Body::with(move || { w1.sync(&q1, "Y", Body::plain()); }));
            others.push(b);
        }
        9 => {
            // idle again after a future operation whose (stale) waker fires while the sync callers run
            w.future_desync(&q, "FD", Body::gated(&g)).detach();
            rt::quiesce();
            if pool == 0 {
                // no pool thread: the operation is run by a thread inside sync (its waker is a thread waker)
                let g2 = g.clone();
                let e = spawn(move || g2.open());
                w.sync(&q, "DRAIN", Body::plain());
                join(e, "opener");
            }
            g.open();
            rt::quiesce();
            let g1 = g.clone();
            hs.push(spawn(move || g1.fire_stale()));
        }
        _ => panic!("bad st"),
    }
    for i in 0..n {
        let (w1, q1) = (w.clone(), q.clone());
        hs.push(spawn(move || { w1.sync(&q1, &format!("S{}", i + 1), Body::plain()); }));
    }
    // `racer`=1: one more thread queues a desync on the same object at an arbitrary moment (e.g. between the current owner
    // handing the queue back and its rescheduling call)
    if cfg.opt("racer", 0) == 1 {
        let (w1, q1) = (w.clone(), q.clone());
        hs.push(spawn(move || { w1.desync(&q1, "RACE-D", Body::plain()); }));
    }
    // environment
    if st == 3 || st == 4 {
        bg.open();
    }
    if st == 5 || st == 7 {
        g.open();
    }
    for (i, h) in hs.into_iter().enumerate() {
        join(h, &format!("caller{}", i));
    }
    let mut objs: Vec<&Obj> = vec![&q];
    for o in &others {
        objs.push(o);
    }
    finish(&w, &objs, pool);
    shutdown();
}

/// C06: one gated future operation with a marker behind it; the wake-up is fired by the environment
/// (main) so that it lands at every scheduling point of the suspending context.
///  kind: 0 future_desync  1 after  2 future_sync (awaited)  3 suspend-style oneshot via future_desync
///  ctx: 0 pool thread (detached, pool>=1)  1 thread inside sync draining (pool 0)  2 task polling the returned future
///       3 a pool thread polls first and suspends the queue, then every pool thread is pinned by other objects' blocking jobs:
///         the wake-up must reach the thread blocked in sync behind the operation, which takes the queue over (the earlier
///         wake-ups of `wake`=1/2 have already notified that thread once, at a moment when there was nothing for it to do)
///  wake: 0 single  1 repeated (poke, poke, open)  2 stale waker from an earlier poll fires too
fn wake_ctx(cfg: &Cfg) {
    let pool = cfg.pool();
    setup(pool);
    let (kind, ctx, wake) = (cfg.get("kind"), cfg.get("ctx"), cfg.opt("wake", 0));
    let w = World::new();
    w.prelude(cfg);
    let q = mkobj(&w, cfg);
    let g = if wake == 2 { Gate::new_keep_stale() } else { Gate::new() };
    let mut hs = vec![];
    // (`selfwake`=1: the operation also wakes its own waker during its first poll, before it suspends on the gate)
    let gated = |g: &Gate| Body { gate: Some(g.clone()), self_wake: cfg.opt("selfwake", 0) == 1, ..Body::default() };
    // the gated operation
    match (kind, ctx) {
        (0, 2) => {
            let (w1, q1, gated1) = (w.clone(), q.clone(), gated(&g));
            hs.push(spawn(move || w1.future_desync(&q1, "FD", gated1).wait()));
        }
        (0, _) => w.future_desync(&q, "FD", gated(&g)).detach(),
        (1, 2) => {
            let (w1, q1, g1) = (w.clone(), q.clone(), g.clone());
            hs.push(spawn(move || w1.after(&q1, "AF", &g1, Body::plain()).wait()));
        }
        (1, _) => w.after(&q, "AF", &g, Body::plain()).detach(),
        (2, _) => {
            let (w1, q1, gated1) = (w.clone(), q.clone(), gated(&g));
            hs.push(spawn(move || w1.future_sync(&q1, "FS", gated1).wait()));
        }
        _ => panic!("bad kind"),
    }
    // the marker behind it
    let bg = BGate::new();
    let mut pins: Vec<Obj> = vec![];
    if ctx == 3 {
        let (w1, q1) = (w.clone(), q.clone());
        hs.push(spawn(move || { w1.sync(&q1, "M", Body::plain()); }));
        // early wake-ups while a pool thread is still there to answer them
        match wake {
            0 => {}
            1 => {
                g.poke();
                g.poke();
            }
            _ => g.poke(),
        }
        rt::quiesce();
        for i in 0..pool {
            let b = w.raw();
            w.desync(&b, &format!("PIN{}", i), Body::blocking(&bg));
            pins.push(b);
        }
        rt::quiesce();
        // the real event: only the thread blocked in sync can run the queue now
        g.open();
        for (i, h) in hs.drain(..).enumerate() {
            join(h, &format!("ctx{}", i));
        }
        bg.open();
    } else if ctx == 1 {
        // a thread inside sync runs the queue (park / unpark path)
        let (w1, q1) = (w.clone(), q.clone());
        hs.push(spawn(move || { w1.sync(&q1, "M", Body::plain()); }));
    } else if kind != 2 || ctx != 2 || pool > 0 {
        w.desync(&q, "M", Body::plain());
    }
    // environment: the external event
    match wake {
        _ if ctx == 3 => {}
        0 => g.open(),
        1 => {
            g.poke();
            g.poke();
            g.open();
        }
        _ => {
            g.poke();
            g.open();
        }
    }
    for (i, h) in hs.into_iter().enumerate() {
        join(h, &format!("ctx{}", i));
    }
    let mut objs: Vec<&Obj> = vec![&q];
    objs.extend(pins.iter());
    finish(&w, &objs, pool);
    if g.polls() == 0 {
        rt::violation("WAKE-LOST the gated operation was never polled".into());
    }
    shutdown();
}

/// C07: how the returned future of future_desync / after is consumed
///  mode: 0 await  1 .sync()  2 detach  3 drop after k polls (k)  4 never polled until the end
///  gated: operation waits for an external event
fn fd_result(cfg: &Cfg) {
    let pool = cfg.pool();
    setup(pool);
    let (mode, gated, k, after) = (cfg.get("mode"), cfg.opt("gated", 1) == 1, cfg.opt("k", 1) as usize, cfg.opt("after", 0) == 1);
    let w = World::new();
    w.prelude(cfg);
    let q = mkobj(&w, cfg);
    let g = Gate::new();
    let mut body = if gated { Body::gated(&g) } else { Body::plain() };
    // (`selfwake`=1: the operation first wakes itself during its poll, like a cooperative yield, and then waits for the event)
    body.self_wake = cfg.opt("selfwake", 0) == 1;
    let pins: Vec<(Obj, BGate)> = vec![];
    let mut hs = vec![];
    let mut kept = None;
    let mut polled_once = None;
    if after {
        let h = w.after(&q, "AF", &g, Body::plain());
        match mode {
            0 => hs.push(spawn(move || h.wait())),
            _ => h.detach(),
        }
    } else {
        let h = w.future_desync(&q, "FD", body);
        match mode {
            0 if cfg.opt("dep", 0) == 1 => {
                // `dep`=1: an operation queued behind the awaited one blocks until the awaiting task has its result (it must be
                // left to another runner, never run inside the poll that delivers the result)
                let (w1, q1) = (w.clone(), q.clone());
                let bg_dep = BGate::new();
                w.desync(&q, "M-dep", Body::blocking(&bg_dep));
                hs.push(spawn(move || {
                    h.wait();
                    bg_dep.open();
                    w1.desync(&q1, "M-after", Body::plain());
                }))
            }
            0 => hs.push(spawn(move || h.wait())),
            1 => hs.push(spawn(move || h.sync())),
            2 => h.detach(),
            3 => hs.push(spawn(move || h.poll_then_drop(k))),
            5 | 6 => {
                // polled once by a task that then neither re-polls nor drops the future: the pool must take the queue over
                // when the event arrives (mode 6: the holder then waits with .sync())
                let (tx, rx) = std::sync::mpsc::channel();
                let g2 = g.clone();
                hs.push(spawn(move || {
                    let mut h = h;
                    let mut f = Box::pin(h.fut.take().unwrap());
                    let (w, _c) = counting_waker();
                    let mut cx = futures::task::Context::from_waker(&w);
                    let first = f.as_mut().poll(&mut cx);
                    vsched::thread::yield_now();
                    g2.open();
                    if let futures::task::Poll::Ready(r) = first {
                        if r != Ok(h.token) {
                            rt::violation("FUTURE-RESULT FD resolved to the wrong value on its first poll".into());
                        }
                        let _ = tx.send(None);
                    } else {
                        let _ = tx.send(Some((f, h.token, h.rec.clone(), h.op)));
                    }
                }));
                polled_once = Some(rx);
            }
            _ => kept = Some(h),
        }
    }
    w.desync(&q, "M", Body::plain());
    g.open();
    for (_, bg) in &pins {
        bg.open();
    }
    for (i, h) in hs.into_iter().enumerate() {
        join(h, &format!("consumer{}", i));
    }
    rt::quiesce();
    for (x, _) in &pins {
        expect_idle(x);
    }
    if let Some(rx) = polled_once {
        if let Ok(Some((f, token, rec, op))) = rx.try_recv() {
            if pool > 0 {
                let r = rec.get(op);
                if r.ends.is_empty() {
                    rt::violation("STRANDED FD was polled once and then left alone: a pool thread was available but the operation never completed".into());
                }
            }
            let f = std::pin::Pin::into_inner(f);
            let r = if mode == 6 { f.sync() } else { block_on(f) };
            if r != Ok(token) {
                rt::violation("FUTURE-RESULT FD (polled once, then awaited late) resolved to the wrong value".into());
            }
        }
    }
    if let Some(h) = kept {
        if pool > 0 {
            // the operation ran although nobody ever polled the future
            let r = w.rec.get(h.op);
            if r.ends.is_empty() {
                rt::violation("STRANDED FD never ran although a pool thread was available (future never polled)".into());
            }
        }
        h.wait();
    }
    finish(&w, &[&q], pool);
    shutdown();
}

/// C07: two futures on one queue, awaited by two tasks (order=0) or by one task in either order (1, 2)
fn fd_two(cfg: &Cfg) {
    let pool = cfg.pool();
    setup(pool);
    let order = cfg.get("order");
    let w = World::new();
    w.prelude(cfg);
    let q = mkobj(&w, cfg);
    let g = Gate::new();
    let h1 = w.future_desync(&q, "FD1", Body::gated(&g));
    let h2 = w.future_desync(&q, "FD2", Body::plain());
    let mut hs = vec![];
    match order {
        0 => {
            hs.push(spawn(move || h1.wait()));
            if cfg.opt("swap", 0) == 1 {
                hs.push(spawn(move || h2.wait_swapped()));
            } else {
                hs.push(spawn(move || h2.wait()));
            }
        }
        1 => hs.push(spawn(move || {
            h1.wait();
            h2.wait();
        })),
        _ => hs.push(spawn(move || {
            h2.wait();
            h1.wait();
        })),
    }
    g.open();
    for (i, h) in hs.into_iter().enumerate() {
        join(h, &format!("task{}", i));
    }
    finish(&w, &[&q], pool);
    shutdown();
}

/// C08: future_sync
///  mode 0: await to completion; 1: drop before the first poll; 2: drop while waiting for the slot (a
///  gated op ahead); 3: drop in the middle of the operation (polled until started, gate closed)
///  A marker op behind must run in every case (pool >= 1)
fn fs_cancel(cfg: &Cfg) {
    let pool = cfg.pool();
    setup(pool);
    let mode = cfg.get("mode");
    let w = World::new();
    w.prelude(cfg);
    let q = mkobj(&w, cfg);
    let g_ahead = Gate::new();
    let g = Gate::new();
    if mode == 2 || cfg.opt("ahead", 0) == 1 {
        w.future_desync(&q, "AHEAD-FD", Body::gated(&g_ahead)).detach();
    }
    let mut hs = vec![];
    let mut others: Vec<Obj> = vec![];
    match cfg.opt("syncer", 0) {
        1 => {
            // a thread blocked in sync on the queue while the future_sync future lives and dies
            let (w1, q1) = (w.clone(), q.clone());
            hs.push(spawn(move || { w1.sync(&q1, "SYNCER", Body::plain()); }));
        }
        2 => {
            // ... and the same from a job on another object (it occupies a pool thread)
            let x = w.raw();
            let (w1, q1) = (w.clone(), q.clone());
            w.desync(&x, "X", Body::with(move || { w1.sync(&q1, "SYNCER", Body::plain()); }));
            others.push(x);
        }
        _ => {}
    }
    {
        let (w1, q1, g1) = (w.clone(), q.clone(), g.clone());
        let bg_dep = BGate::new();
        let dep = cfg.opt("dep", 0) == 1;
        hs.push(spawn(move || {
            let h = w1.future_sync(&q1, "FS", Body::gated(&g1));
            if dep && mode == 0 {
                // `dep`=1: an operation queued behind the future_sync blocks until the awaiting task has its result (it must be
                // left to another runner, never run inside the poll that delivers the result)
                w1.desync(&q1, "M-dep", Body::blocking(&bg_dep));
                h.wait();
                bg_dep.open();
                w1.desync(&q1, "M2", Body::plain());
                return;
            }
            match mode {
                0 => h.wait(),
                1 => h.poll_then_drop(0),
                2 => h.poll_then_drop(1),
                4 => {
                    // awaited to completion by reference (as select!/timeout wrappers do); the completed future is kept alive while
                    // later operations are issued, and only then dropped
                    let mut h = h;
                    let mut f = h.fut.take().unwrap();
                    let prev = rt::note("in:await-fs FS");
                    let r = block_on(&mut f);
                    rt::note(&prev);
                    if r != Ok(h.token) {
                        rt::violation("FUTURE-RESULT FS resolved to the wrong value".into());
                    } else {
                        h.rec.resolved(h.op);
                    }
                    w1.sync(&q1, "S-after-FS", Body::plain());
                    w1.desync(&q1, "D-after-FS", Body::plain());
                    drop(f);
                }
                _ => h.poll_then_drop(3),
            }
            // whatever happened to the future, a marker scheduled afterwards must run
            w1.desync(&q1, "M2", Body::plain());
        }));
    }
    w.desync(&q, "M", Body::plain());
    g_ahead.open();
    if mode == 0 || mode == 4 {
        g.open();
    }
    for (i, h) in hs.into_iter().enumerate() {
        join(h, &format!("fs{}", i));
    }
    let mut objs: Vec<&Obj> = vec![&q];
    for o in &others {
        objs.push(o);
    }
    finish(&w, &objs, pool);
    shutdown();
}

/// C08 / C07 nested: one object's future awaited inside another object's job
///  shape 0: future_sync(b) awaited inside future_desync(a) job; 1: future_desync(b) awaited inside future_sync(a);
///  2: future_sync(b) inside future_sync(a); 3: future_sync(b) created inside a's job but dropped unawaited
fn fs_nested(cfg: &Cfg) {
    let pool = cfg.pool();
    setup(pool);
    let shape = cfg.get("shape");
    let w = World::new();
    w.prelude(cfg);
    let a = w.raw();
    let b = w.raw();
    let (w1, a1, b1) = (w.clone(), a.clone(), b.clone());
    let t = spawn(move || {
        use futures::FutureExt;
        let rec = w1.rec.clone();
        let (qa, sta) = match &a1 { Obj::Raw(q, s) => (q.clone(), s.clone()), _ => unreachable!() };
        let outer = rec.inv("OUTER", a1.id(), if shape == 0 || shape == 3 { Kind::FutureDesync } else { Kind::FutureSync });
        let (w2, b2) = (w1.clone(), b1.clone());
        let rec2 = rec.clone();
        let inner_job = move || async move {
            rec2.start(outer);
            sta.enter("OUTER");
            match shape {
                0 | 2 => {
                    let h = w2.future_sync(&b2, "INNER-FS", Body::plain());
                    let r = h.fut.unwrap_or_else(|| unreachable!());
                    let v = r.await;
                    if v != Ok(h.token) { rt::violation("FUTURE-RESULT INNER-FS wrong value".into()); }
                }
                1 => {
                    let mut h = w2.future_desync(&b2, "INNER-FD", Body::plain());
                    let v = h.fut.take().unwrap().await;
                    if v != Ok(h.token) { rt::violation("FUTURE-RESULT INNER-FD wrong value".into()); }
                }
                _ => {
                    let h = w2.future_sync(&b2, "INNER-FS", Body::plain());
                    h.rec.set_may_not_run(h.op);
                    drop(h);
                }
            }
            sta.exit();
            rec2.end(outer, false);
            7u32
        };
        let r = if shape == 0 || shape == 3 {
            let f = sched().future_desync(&qa, inner_job);
            rec.ret(outer);
            block_on(f)
        } else {
            let f = sched().future_sync(&qa, inner_job).boxed();
            rec.ret(outer);
            block_on(f)
        };
        if r != Ok(7) {
            rt::violation("FUTURE-RESULT OUTER resolved to the wrong value".into());
        }
    });
    join(t, "nest");
    finish(&w, &[&a, &b], pool);
    shutdown();
}

/// C09: try_sync against every completion path
///  path 0: end of an immediate sync (with a job scheduled from inside: the idle/non-empty window)
///  1: end of sync_drain (queue pending at the call)  2: pool drain finishing  3: background waiter stealing
///  4: suspended future + wake  5: polling task
fn try_paths(cfg: &Cfg) {
    let pool = cfg.pool();
    setup(pool);
    let path = cfg.get("path");
    let w = World::new();
    w.prelude(cfg);
    let q = mkobj(&w, cfg);
    let g = Gate::new();
    let mut hs = vec![];
    match path {
        0 => {
            let (w1, q1) = (w.clone(), q.clone());
            hs.push(spawn(move || {
                let (w2, q2) = (w1.clone(), q1.clone());
                w1.sync(&q1, "S", Body::with(move || { w2.desync(&q2, "N", Body::plain()); }));
            }));
        }
        1 => {
            w.desync(&q, "D", Body::plain());
            let (w1, q1) = (w.clone(), q.clone());
            hs.push(spawn(move || { w1.sync(&q1, "S", Body::plain()); }));
        }
        2 => {
            w.desync(&q, "D1", Body::plain());
            w.desync(&q, "D2", Body::plain());
        }
        3 => {
            let (w1, q1) = (w.clone(), q.clone());
            hs.push(spawn(move || { w1.sync(&q1, "S1", Body::plain()); }));
            let (w1, q1) = (w.clone(), q.clone());
            hs.push(spawn(move || { w1.sync(&q1, "S2", Body::plain()); }));
        }
        4 => {
            w.future_desync(&q, "FD", Body::gated(&g)).detach();
            w.desync(&q, "M", Body::plain());
        }
        6 => {
            // an earlier future operation has come and gone; the waker it was polled with fires again (stale) at an
            // arbitrary moment, e.g. inside the closure of a successful try_sync
            w.future_desync(&q, "FD", Body::gated(&g)).detach();
            rt::quiesce();
            if pool == 0 {
                // no pool thread: the operation is run by a thread inside sync (its waker is a thread waker)
                let g2 = g.clone();
                let e = spawn(move || g2.open());
                w.sync(&q, "DRAIN", Body::plain());
                join(e, "opener");
            }
            g.open();
            rt::quiesce();
            let g1 = g.clone();
            hs.push(spawn(move || g1.fire_stale()));
        }
        7 => {
            // nothing is queued or in progress; an observer formats the queue's Debug text (which looks at the queue's state)
            w.desync(&q, "D", Body::plain());
            rt::quiesce();
            if pool == 0 {
                w.sync(&q, "DRAIN", Body::plain());
            }
            let q1 = q.clone();
            hs.push(spawn(move || {
                let text = match &q1 { Obj::Raw(jq, _) => format!("{:?}", jq), Obj::D(_, _) => String::new() };
                rt::outcome(format!("dbg={}", text.len().min(1)));
            }));
        }
        _ => {
            let (w1, q1, g1) = (w.clone(), q.clone(), g.clone());
            hs.push(spawn(move || w1.future_desync(&q1, "FD", Body::gated(&g1)).wait()));
        }
    }
    {
        let (w1, q1) = (w.clone(), q.clone());
        hs.push(spawn(move || {
            let (_, ok) = w1.try_sync(&q1, "T", Body::plain());
            if !ok && (path == 6 || path == 7) {
                // in these paths no operation is queued or in progress at any time during the call: only a stale waker fires,
                // or somebody looks at the queue
                rt::violation("NOT-QUIET try_sync reported Busy although the object had no operation queued or in progress (only a stale waker firing / an observer looking at the queue)".into());
            }
            rt::outcome(format!("T={}", ok));
            // later work is still accepted and completes
            w1.desync(&q1, "L", Body::plain());
        }));
    }
    g.open();
    for (i, h) in hs.into_iter().enumerate() {
        join(h, &format!("t{}", i));
    }
    finish(&w, &[&q], pool);
    // once the object has no operation queued or in progress try_sync succeeds
    let (_, ok) = w.try_sync(&q, "T-final", Body::plain());
    if !ok {
        rt::violation("NOT-QUIET try_sync reports Busy on an object with nothing queued or running".into());
    }
    shutdown();
}

/// C10: k objects blocked (blocking gate = pins a pool thread, or suspended future), pool maximum k+1,
/// a caller blocked in sync on one of them; operations on other objects must complete while the
/// gates are still closed.
///  mode 0: blocking jobs  1: suspended futures  2: one of each
fn indep(cfg: &Cfg) {
    let pool = cfg.pool();
    setup(pool);
    let (k, mode, syncer) = (cfg.get("k") as usize, cfg.opt("mode", 0), cfg.opt("syncer", 1) == 1);
    let w = World::new();
    w.prelude(cfg);
    let mut blocked = vec![];
    let mut bgs = vec![];
    let mut gs = vec![];
    for i in 0..k {
        let o = w.raw();
        if mode == 0 || (mode == 2 && i == 0) {
            let bg = BGate::new();
            w.desync(&o, &format!("BLK{}", i), Body::blocking(&bg));
            bgs.push(bg);
        } else {
            let g = Gate::new();
            w.future_desync(&o, &format!("SUSP{}-FD", i), Body::gated(&g)).detach();
            gs.push(g);
        }
        blocked.push(o);
    }
    let mut hs = vec![];
    if syncer {
        let (w1, o1) = (w.clone(), blocked[0].clone());
        hs.push(spawn(move || { w1.sync(&o1, "WAITER", Body::plain()); }));
    }
    // free objects: work issued from two places while pool threads start / go dormant
    let f1 = w.raw();
    let f2 = w.raw();
    let (w1, f1c) = (w.clone(), f1.clone());
    let t = spawn(move || {
        w1.desync(&f1c, "F1a", Body::plain());
        w1.desync(&f1c, "F1b", Body::plain());
    });
    w.desync(&f2, "F2a", Body::plain());
    join(t, "free-scheduler");
    // first quiescence: gates still closed
    rt::quiesce();
    for name in ["F1a", "F1b", "F2a"] {
        let done = w.rec.all().iter().any(|o| o.name == name && !o.ends.is_empty());
        if !done {
            rt::violation(format!("INDEP {} on a free object did not run while {} other object(s) were blocked (pool maximum {})", name, k, pool));
        }
    }
    for bg in &bgs {
        bg.open();
    }
    for g in &gs {
        g.open();
    }
    for (i, h) in hs.into_iter().enumerate() {
        join(h, &format!("waiter{}", i));
    }
    let mut objs: Vec<&Obj> = blocked.iter().collect();
    objs.push(&f1);
    objs.push(&f2);
    finish(&w, &objs, pool);
    shutdown();
}

/// C10: a task run by a run-on-wake executor awaits a future operation on object A; its first poll (no pool thread yet) runs
/// A's queue itself and the operation suspends (A is WaitingForPoll).  The pool then comes up and object B gets a job that
/// blocks.  The task is written so that, when woken, it first does a `sync` on B (it "notes that it had to wait") and only then
/// polls A's future again.  When the awaited event fires, A's queue - the woken operation and the desync behind it - must be
/// served by the free pool thread although the task's wake-up is stuck behind B.
fn indep_wake(cfg: &Cfg) {
    use crate::h::sched as scheduler;
    setup(0);
    let pool = cfg.pool();
    let w = World::new();
    w.prelude(cfg);
    set_inline_wakers(true);
    let a = mkobj(&w, cfg);
    let b = w.raw();
    let g = Gate::new();
    let hold = BGate::new();
    let mut h = w.future_desync(&a, "FD", Body { gate: Some(g.clone()), hold: Some(hold.clone()), ..Body::default() });
    w.desync(&a, "M", Body::plain());
    let fut = h.fut.take().unwrap();
    let (w1, b1, token) = (w.clone(), b.clone(), h.token);
    let on_runner = Arc::new(std::sync::atomic::AtomicBool::new(false));
    let on_runner1 = on_runner.clone();
    let task = spawn(move || {
        let prev = rt::note("in:await-fd FD");
        let r = block_on(async move {
            let mut f = Box::pin(fut);
            match PollOnce(&mut f).await {
                std::task::Poll::Ready(r) => r,
                std::task::Poll::Pending => {
                    WaitOnce(false).await;
                    if rt::current_thread_name().as_deref() == Some(POOL_NAME) {
                        // the wake-up that got here first was the result's, delivered by A's own runner: the continuation now
                        // runs (and blocks) inside A's queue by the task's own design, which is not the library's doing
                        on_runner1.store(true, AO::SeqCst);
                    }
                    w1.sync(&b1, "B-note", Body::plain());
                    f.await
                }
            }
        });
        rt::note(&prev);
        if r != Ok(token) {
            rt::violation("FUTURE-RESULT FD resolved to the wrong value".into());
        }
    });
    // the task is inside its first poll, inside the operation (A is Running on the task's thread): bring the pool up and let
    // it look at (and discard) A's stale schedule entry while it takes B's blocking job
    rt::quiesce();
    scheduler().verif_set_max_threads(pool);
    rt::set_census_limit(POOL_NAME, pool);
    let bgb = BGate::new();
    w.desync(&b, "B-blk", Body::blocking(&bgb));
    rt::quiesce();
    hold.open();
    rt::quiesce();
    // the awaited event, from an environment thread
    let g2 = g.clone();
    let env = spawn(move || g2.open());
    rt::quiesce();
    rt::outcome(format!("continuation-on-runner={}", on_runner.load(AO::SeqCst)));
    for name in ["FD", "M"] {
        if on_runner.load(AO::SeqCst) && name == "M" {
            continue;
        }
        if !w.rec.all().iter().any(|o| o.name == name && !o.ends.is_empty()) {
            rt::violation(format!("INDEP {} on object A did not complete while object B was blocked, although a pool thread was free (pool maximum {}): A's queue waited for the task's wake-up, which was busy with B", name, pool));
        }
    }
    bgb.open();
    join(env, "env");
    join(task, "task");
    finish(&w, &[&a, &b], pool);
    shutdown();
}

/// C10: the pool is saturated (maximum `pool`), more objects than that have work waiting, some of it blocking; then the
/// maximum is raised to `to` through the public `set_max_threads`: every waiting object that fits under the new maximum
/// must be served although the objects ahead of it stay blocked.
fn indep_raise(cfg: &Cfg) {
    use crate::h::sched as scheduler;
    let pool = cfg.pool();
    setup(pool);
    let to = cfg.get("to") as usize;
    let w = World::new();
    w.prelude(cfg);
    let mut objs = vec![];
    let mut bgs = vec![];
    // `pool` blocking jobs pin every existing thread; `to - pool - 1` more blocking jobs and one plain job wait in the schedule
    for i in 0..(to - 1) {
        let o = w.raw();
        let bg = BGate::new();
        w.desync(&o, &format!("BLK{}", i), Body::blocking(&bg));
        if i < pool {
            rt::quiesce();
        }
        objs.push(o);
        bgs.push(bg);
    }
    let f = w.raw();
    w.desync(&f, "F1", Body::plain());
    rt::quiesce();
    rt::set_census_limit(POOL_NAME, to);
    scheduler().set_max_threads(to);
    rt::quiesce();
    if !w.rec.all().iter().any(|o| o.name == "F1" && !o.ends.is_empty()) {
        rt::violation(format!("INDEP F1 did not run after the pool maximum was raised from {} to {} although only {} objects are blocked", pool, to, to - 1));
    }
    for bg in &bgs {
        bg.open();
    }
    let mut all: Vec<&Obj> = objs.iter().collect();
    all.push(&f);
    finish(&w, &all, to);
    shutdown();
}

/// C10 + C17: the maximum is lowered while one surplus pool thread is pinned by a job blocked on an external gate; a caller
/// is inside `despawn_threads_if_overloaded` (which may have to wait for that thread).  The pool still has a free thread
/// and the maximum exceeds the number of blocked objects: work on other objects must run while the gate is still closed.
fn indep_despawn(cfg: &Cfg) {
    use crate::h::sched as scheduler;
    let pool = cfg.pool();
    setup(pool);
    let w = World::new();
    w.prelude(cfg);
    let mut objs = vec![];
    let mut bgs = vec![];
    for i in 0..pool {
        let o = w.raw();
        let bg = BGate::new();
        w.desync(&o, &format!("K{}", i), Body::blocking(&bg));
        rt::quiesce();
        objs.push(o);
        bgs.push(bg);
    }
    // every pool thread exists and is pinned; release all but one
    let keep = cfg.opt("keep", pool as i64 - 1) as usize;
    assert!(pool >= 3 || (pool == 2 && keep == 1), "indep_despawn: the lowered maximum must leave a thread for the free object");
    for (i, bg) in bgs.iter().enumerate() {
        if i != keep {
            bg.open();
        }
    }
    rt::quiesce();
    let lower = pool - 1;
    scheduler().verif_set_max_threads(lower);
    let despawner = spawn(move || {
        scheduler().despawn_threads_if_overloaded();
    });
    let f = w.raw();
    let (w1, f1) = (w.clone(), f.clone());
    // `fop`=1: the operation on the free object is a sync whose closure queues more work on the same object (so the sync has
    // to reschedule its queue when it finishes)
    let fop = cfg.opt("fop", 0);
    let t = spawn(move || {
        if fop == 1 {
            let (w2, f2) = (w1.clone(), f1.clone());
            w1.sync(&f1, "F1", Body::with(move || { w2.desync(&f2, "F1n", Body::plain()); }));
        } else if fop == 2 {
            let (w2, f2) = (w1.clone(), f1.clone());
            let _ = w1.try_sync(&f1, "F1", Body::with(move || { w2.desync(&f2, "F1n", Body::plain()); }));
        } else {
            w1.desync(&f1, "F1", Body::plain());
        }
    });
    rt::quiesce();
    let f1_rec = w.rec.all().into_iter().find(|o| o.name == "F1");
    if fop == 2 {
        if f1_rec.map(|o| o.ret.is_none()).unwrap_or(true) {
            rt::violation(format!("TRY-BLOCKED try_sync on a free object did not return while another object's job was blocked and a caller was despawning surplus threads (pool maximum lowered from {} to {})", pool, lower));
        }
    } else if fop == 1 {
        if f1_rec.map(|o| o.ret.is_none()).unwrap_or(true) {
            rt::violation(format!("SYNC-STALL sync on a free object (nothing ahead of it) did not return while another object's job was blocked and a caller was despawning surplus threads (pool maximum lowered from {} to {})", pool, lower));
        }
    } else if !f1_rec.map(|o| !o.ends.is_empty()).unwrap_or(false) {
        rt::violation(format!("INDEP F1 on a free object did not run while one object was blocked and a caller was despawning surplus threads (pool maximum lowered from {} to {})", pool, lower));
    }
    bgs[keep].open();
    join(t, "free-scheduler");
    join(despawner, "despawner");
    rt::set_census_limit(POOL_NAME, lower);
    if rt::live_threads_named(POOL_NAME) > lower {
        rt::violation(format!("CENSUS {} pool threads alive after lowering the maximum to {} and despawning", rt::live_threads_named(POOL_NAME), lower));
    }
    w.desync(&f, "F2", Body::plain());
    let mut all: Vec<&Obj> = objs.iter().collect();
    all.push(&f);
    finish(&w, &all, lower);
    shutdown();
}

fn keep_none(dropper: i64) -> bool {
    dropper == 5
}

/// C05: the last owner of a Desync is dropped while work is queued / running / suspended
///  state 0: a desync queued  1: a blocking job running  2: a suspended future (gate opened by env)  3: future + desync
///  dropper 0: caller thread  1: a pool thread running another object's job  2: second caller racing a sync
fn drop_obj(cfg: &Cfg) {
    let pool = cfg.pool();
    setup(pool);
    let (state, dropper) = (cfg.get("state"), cfg.opt("dropper", 0));
    let w = World::new();
    w.prelude(cfg);
    let o = w.desync_obj();
    let st = o.st().clone();
    let g = Gate::new();
    let bg = BGate::new();
    let mut pre_threads = vec![];
    let mut held = None;
    match state {
        0 => {
            w.desync(&o, "D", Body::plain());
        }
        6 => {
            // a future operation whose future is polled once (dropper 4) by a task whose waker owns the last reference
            held = Some(w.future_desync(&o, "FD", Body { gate: Some(g.clone()), self_wake: cfg.opt("selfwake", 0) == 1, ..Body::default() }));
        }
        1 => {
            w.desync(&o, "Dblk", Body::blocking(&bg));
        }
        2 => w.future_desync(&o, "FD", Body::gated(&g)).detach(),
        5 => {
            // a thread that does not own the Desync waits for a future operation's result with .sync(): with no free pool thread
            // it runs the queue itself and parks inside the operation
            let h = w.future_desync(&o, "FD", Body::gated(&g));
            pre_threads.push(spawn(move || h.sync()));
            // (the waiter is inside its sync before anything is dropped: a .sync() that only *starts* after a drop performed by an
            // unwinding thread finds the queue marked Panicked by that thread's drain, which no listed property speaks about)
            rt::quiesce();
        }
        8 => {
            // a task that does not own the Desync awaits a future operation's result (with `inl`=1: under a run-on-wake
            // executor, so the result's wake-up polls the task on the runner's thread, inside the operation's job)
            let h = w.future_desync(&o, "FD", Body::gated(&g));
            pre_threads.push(spawn(move || h.wait()));
            rt::quiesce();
        }
        4 => {
            // the future is polled once by hand (the poll may run the operation up to its await), the event fires, and the
            // future is dropped without being polled again, possibly while another runner is inside the resumed operation
            let g2 = g.clone();
            w.future_desync(&o, "FD", Body::gated(&g)).poll_then(1, move || g2.open());
        }
        _ => {
            w.future_desync(&o, "FD", Body::gated(&g)).detach();
            w.desync(&o, "D", Body::plain());
        }
    }
    let oid = o.id();
    let before: Vec<usize> = w.rec.all().iter().enumerate().filter(|(_, r)| r.obj == oid).map(|(i, _)| i).collect();
    let rec = w.rec.clone();
    let drops = w.payload_drops.clone();
    let check_after_drop = move |rec: &Rec| {
        for id in &before {
            let r = rec.get(*id);
            if r.ends.is_empty() {
                rt::violation(format!("DROP-EARLY drop returned before {} finished", r.name));
            }
        }
        if drops.load(AO::SeqCst) != 1 {
            rt::violation(format!("DROP-COUNT payload destroyed {} times when drop returned", drops.load(AO::SeqCst)));
        }
    };
    let mut hs = vec![];
    let mut panicking = vec![];
    let helper = w.raw();
    /// runs the after-drop checks when it is dropped (declared before the owner, so dropped after it during unwinding)
    struct AfterDrop {
        rec: Arc<Rec>,
        dop: OpId,
        check: Option<Box<dyn FnOnce(&Rec) + Send>>,
    }
    impl Drop for AfterDrop {
        fn drop(&mut self) {
            self.rec.start(self.dop);
            self.rec.end(self.dop, false);
            self.rec.ret(self.dop);
            if let Some(c) = self.check.take() {
                c(&self.rec);
            }
        }
    }
    let mut kept_future = None;
    let mut late_release = None;
    let mut no_final_judgement = false;
    match dropper {
        4 => {
            // cancel-on-wake: the task's waker holds the last owner and releases it, on whatever thread delivers the wake-up,
            // the first time it is woken; the future itself is kept and not polled again until everything has gone quiet
            struct DropOnWake(std::sync::Mutex<Option<Box<dyn FnOnce() + Send>>>);
            impl futures::task::ArcWake for DropOnWake {
                fn wake_by_ref(a: &Arc<Self>) {
                    // (a wake-up delivered by a pool thread comes from the runner of this very queue, as part of finishing the
                    // operation: releasing the last owner there is "from inside one of the object's own operations", which is
                    // excluded; that wake-up is ignored and the environment thread's wake-up, or the end of the run, releases)
                    if rt::current_thread_name().as_deref() == Some(POOL_NAME) {
                        return;
                    }
                    let f = a.0.lock().unwrap().take();
                    if let Some(f) = f {
                        f();
                    }
                }
            }
            let release: Box<dyn FnOnce() + Send> = Box::new(move || {
                let dop = rec.inv("DROP", st.id, Kind::Drop);
                drop(o);
                rec.start(dop);
                rec.end(dop, false);
                rec.ret(dop);
                check_after_drop(&rec);
            });
            let dow = Arc::new(DropOnWake(std::sync::Mutex::new(Some(release))));
            late_release = Some(dow.clone());
            let waker = futures::task::waker(dow);
            let mut h = held.take().expect("dropper=4 needs state=6");
            let mut f = Box::pin(h.fut.take().unwrap());
            let mut cx = futures::task::Context::from_waker(&waker);
            use std::future::Future;
            match f.as_mut().poll(&mut cx) {
                futures::task::Poll::Ready(_) => rt::violation("FUTURE-RESULT FD resolved before its event".into()),
                _ => kept_future = Some((f, h.token)),
            }
            drop(waker);
        }
        0 => {
            hs.push(spawn(move || {
                let dop = rec.inv("DROP", st.id, Kind::Drop);
                drop(o);
                rec.start(dop);
                rec.end(dop, false);
                rec.ret(dop);
                check_after_drop(&rec);
            }));
        }
        7 => {
            // the task that owns the last reference polls the future operation's future with a waker that *panics* inside wake();
            // the operation wakes itself during that poll (`selfwake`=1), so the panic comes out of the poll while the operation
            // is suspended with the value borrowed; the unwinding task drops the future and the last reference.  (What becomes
            // of the value is not judged here - the object saw a panic - only that nothing touches it after its destruction.)
            struct PanicOnWake;
            impl futures::task::ArcWake for PanicOnWake {
                fn wake_by_ref(_: &Arc<Self>) {
                    panic!("PLANNED-PANIC in the task's waker");
                }
            }
            let mut h = held.take().expect("dropper=7 needs state=6");
            w.rec.set_may_not_run(h.op);
            no_final_judgement = true;
            let rec1 = rec.clone();
            let t = vsched::thread::spawn(move || {
                let dop = rec1.inv("DROP", st.id, Kind::Drop);
                rec1.set_may_not_run(dop);
                let _owner = o;
                let mut f = Box::pin(h.fut.take().unwrap());
                let waker = futures::task::waker(Arc::new(PanicOnWake));
                let mut cx = futures::task::Context::from_waker(&waker);
                use std::future::Future;
                let _ = f.as_mut().poll(&mut cx);
            });
            panicking.push(t);
        }
        5 | 6 => {
            // a thread that is unwinding from an unrelated panic uses the object from a destructor (a "flush on drop" guard that
            // calls sync) and then drops its reference: the last one (5), or not the last one: the main thread uses the object
            // afterwards and then drops it (6)
            struct SyncOnDrop(Arc<World>, Option<Obj>);
            impl Drop for SyncOnDrop {
                fn drop(&mut self) {
                    let o = self.1.take().unwrap();
                    self.0.sync(&o, "S-in-destructor", Body::plain());
                }
            }
            let keep = if dropper == 6 { Some(o.clone()) } else { None };
            let (w1, o_guard) = (w.clone(), o.clone());
            let rec1 = rec.clone();
            let t = vsched::thread::spawn(move || {
                let dop = rec1.inv("DROP", st.id, Kind::Drop);
                let _after = if keep_none(dropper) { Some(AfterDrop { rec: rec1.clone(), dop, check: Some(Box::new(check_after_drop)) }) } else { rec1.set_may_not_run(dop); None };
                let _owner = o;
                let _guard = SyncOnDrop(w1, Some(o_guard));
                panic!("PLANNED-PANIC unrelated to the object, in a thread that uses it from a destructor");
            });
            panicking.push(t);
            if let Some(o2) = keep {
                bg.open();
                g.open();
                for h in panicking.drain(..) {
                    let _ = h.join();
                }
                // no operation of the object ever panicked: it is as usable as before
                w.sync(&o2, "S-after-unwind", Body::plain());
                w.desync(&o2, "D-after-unwind", Body::plain());
                let dop = w.rec.inv("DROP2", o2.id(), Kind::Drop);
                drop(o2);
                w.rec.start(dop);
                w.rec.end(dop, false);
                w.rec.ret(dop);
                if w.payload_drops.load(AO::SeqCst) != 1 {
                    rt::violation(format!("DROP-COUNT payload destroyed {} times when the last owner's drop returned", w.payload_drops.load(AO::SeqCst)));
                }
            }
        }
        3 => {
            // the last owner is dropped by a thread that is unwinding from a panic
            let t = vsched::thread::spawn(move || {
                // (locals are dropped in reverse order while unwinding: the owner first, then the after-drop checks)
                let dop = rec.inv("DROP", st.id, Kind::Drop);
                let _after = AfterDrop { rec: rec.clone(), dop, check: Some(Box::new(check_after_drop)) };
                let _owner = o;
                panic!("PLANNED-PANIC in the thread that owns the last reference");
            });
            panicking.push(t);
        }
        1 => {
            // the Arc is moved into another object's job: a pool thread performs the drop
            let cell = std::sync::Mutex::new(Some(o));
            let rec2 = rec.clone();
            w.desync(&helper, "H", Body::with(move || {
                if let Some(o) = cell.lock().unwrap().take() {
                    let dop = rec2.inv("DROP", st.id, Kind::Drop);
                    drop(o);
                    rec2.start(dop);
                    rec2.end(dop, false);
                    rec2.ret(dop);
                    check_after_drop(&rec2);
                }
            }));
        }
        _ => {
            // a second owner is syncing while the first drops its handle; the second then drops
            let o2 = o.clone();
            let w2 = w.clone();
            hs.push(spawn(move || {
                w2.sync(&o2, "S", Body::plain());
                drop(o2);
            }));
            hs.push(spawn(move || drop(o)));
        }
    }
    bg.open();
    g.open();
    for (i, h) in hs.into_iter().enumerate() {
        join(h, &format!("dropper{}", i));
    }
    for h in panicking {
        let _ = h.join();
    }
    for (i, h) in pre_threads.into_iter().enumerate() {
        join(h, &format!("waiter{}", i));
    }
    rt::quiesce();
    if let Some(dow) = late_release {
        // no wake-up reached the waker from outside the object's own runner: the owner is released now
        futures::task::ArcWake::wake_by_ref(&dow);
        rt::quiesce();
    }
    if let Some((f, token)) = kept_future {
        let prev = rt::note("in:await-fd FD");
        let r = block_on(f);
        rt::note(&prev);
        if r != Ok(token) {
            rt::violation("FUTURE-RESULT FD (polled once, awaited after the object was dropped) resolved to the wrong value".into());
        }
    }
    if pool == 0 {
        w.sync(&helper, "kick", Body::plain());
    }
    if no_final_judgement {
        // (the suspended operation and its destructor go away with the gate that still holds its waker)
        drop(g);
        rt::quiesce();
        if w.payload_drops.load(AO::SeqCst) > 1 {
            rt::violation(format!("DROP-COUNT payload destroyed {} times", w.payload_drops.load(AO::SeqCst)));
        }
        check_no_unplanned_panics_except(&["on a panicked queue"]);
        shutdown();
        return;
    }
    w.check_quiet();
    if w.payload_drops.load(AO::SeqCst) != 1 {
        rt::violation(format!("DROP-COUNT payload destroyed {} times", w.payload_drops.load(AO::SeqCst)));
    }
    check_no_unplanned_panics();
    shutdown();
}

/// C13: suspend / resume on a raw queue
///  runner 0: the suspend future is awaited by a task (local drain when pool 0); 1: not polled until suspended by the pool
///  resume 0: resume()  1: drop the resumer
fn suspend(cfg: &Cfg) {
    use crate::h::sched as scheduler;
    let pool = cfg.pool();
    setup(pool);
    let (resume_mode, with_sync, stale) = (cfg.opt("resume", 0), cfg.opt("sync", 1) == 1, cfg.opt("stale", 0) == 1);
    let w = World::new();
    w.prelude(cfg);
    let o = w.raw();
    let q = match &o { Obj::Raw(q, _) => q.clone(), _ => unreachable!() };
    let g0 = Gate::new();
    let mut env = None;
    if cfg.opt("stale", 0) == 2 {
        // phase 1, no pool threads: an earlier future operation is run by a thread inside sync (its waker is a thread waker);
        // that waker fires again (stale) later, while the queue is suspended on a pool thread
        scheduler().verif_set_max_threads(0);
        rt::set_census_limit(POOL_NAME, 0);
        w.future_desync(&o, "EARLY-FD", Body::gated(&g0)).detach();
        let g = g0.clone();
        let e1 = spawn(move || g.open());
        w.sync(&o, "EARLY-SYNC", Body::plain());
        join(e1, "env1");
        scheduler().verif_set_max_threads(pool);
        rt::set_census_limit(POOL_NAME, pool);
        let g = g0.clone();
        env = Some(spawn(move || g.fire_stale()));
    }
    if stale {
        // an earlier future operation whose waker is fired again (stale) at an arbitrary later time
        w.future_desync(&o, "EARLY-FD", Body::gated(&g0)).detach();
        let g = g0.clone();
        env = Some(spawn(move || {
            g.open();
            g.fire_stale();
        }));
    }
    // `late`=1: there is no pool thread until the suspension has been reported (the task awaiting the suspend future runs the
    // queue up to the suspension point itself); the pool only appears while the queue is suspended
    let late = cfg.opt("late", 0) == 1;
    if late {
        scheduler().verif_set_max_threads(0);
        rt::set_census_limit(POOL_NAME, 0);
    }
    w.desync(&o, "BEFORE", Body::plain());
    // `race`=1: another thread schedules an operation at the same time as the suspend request is made: it lands either
    // before the request (and has completed when the suspension is reported) or after it (and is held until the resume)
    let mut racer = None;
    if cfg.opt("race", 0) == 1 {
        let (w1, o1) = (w.clone(), o.clone());
        racer = Some(spawn(move || { w1.desync(&o1, "RACE", Body::plain()); }));
    }
    let sop = w.rec.inv("SUSPEND", o.id(), Kind::Suspend);
    let susp = scheduler().suspend(&q);
    w.rec.ret(sop);
    w.rec.set_may_not_run(sop);
    w.desync(&o, "AFTER1", Body::plain());
    let mut hs = vec![];
    if with_sync {
        let (w1, o1) = (w.clone(), o.clone());
        hs.push(spawn(move || { w1.sync(&o1, "SYNC", Body::plain()); }));
    }
    let resumer = block_on(susp);
    let resumer = match resumer {
        Ok(r) => r,
        Err(_) => {
            rt::violation("SUSPEND-CANCELED the suspend future resolved to Canceled".into());
            shutdown();
            return;
        }
    };
    // every earlier op has completed, no later op has started
    let check_held = |when: &str| {
        for r in w.rec.all() {
            if r.name == "BEFORE" && r.ends.is_empty() {
                rt::violation(format!("SUSPEND-EARLY suspend resolved before BEFORE completed ({})", when));
            }
            if (r.name == "AFTER1" || r.name == "SYNC" || r.name == "AFTER2") && !r.starts.is_empty() {
                rt::violation(format!("SUSPEND-LEAK {} ran while the queue was suspended ({})", r.name, when));
            }
        }
    };
    check_held("at resolution");
    if late {
        rt::set_census_limit(POOL_NAME, pool);
        if cfg.opt("api", 0) == 1 {
            // through the public call, which starts threads eagerly: they look at the schedule and go dormant again
            scheduler().set_max_threads(pool);
        } else {
            scheduler().verif_set_max_threads(pool);
        }
    }
    let race_at_resolution = w.rec.all().into_iter().find(|r| r.name == "RACE").map(|r| (r.starts.len(), r.ends.len()));
    if let Some((s, e)) = race_at_resolution {
        if s != e {
            rt::violation("SUSPEND-EARLY RACE (scheduled concurrently with the suspend request) was in the middle of running when the suspension was reported".into());
        }
    }
    w.desync(&o, "AFTER2", Body::plain());
    // let everybody else run as far as they can: nothing may start
    rt::quiesce();
    check_held("at quiescence while suspended");
    if let Some(r) = racer.take() {
        join(r, "racer");
    }
    let race_suspended = w.rec.all().into_iter().find(|r| r.name == "RACE").map(|r| (r.starts.len(), r.ends.len()));
    if race_at_resolution.is_some() && race_suspended != race_at_resolution {
        rt::violation("SUSPEND-LEAK RACE (scheduled concurrently with the suspend request) ran while the queue was suspended".into());
    }
    let resumed_at = rt::tick();
    if resume_mode == 0 {
        resumer.resume();
    } else {
        drop(resumer);
    }
    for (i, h) in hs.into_iter().enumerate() {
        join(h, &format!("sync{}", i));
    }
    if let Some(e) = env {
        join(e, "env");
    }
    finish(&w, &[&o], pool);
    let all = w.rec.all();
    let start_of = |n: &str| all.iter().find(|r| r.name == n).and_then(|r| r.starts.first().cloned());
    match (start_of("AFTER1"), start_of("AFTER2")) {
        (Some(a1), Some(a2)) => {
            if !(resumed_at < a1 && a1 < a2) {
                rt::violation("SUSPEND-ORDER held operations did not run in order after the resume".into());
            }
        }
        _ => rt::violation("STRANDED held operations never ran after the resume".into()),
    }
    if with_sync {
        if let Some(s) = start_of("SYNC") {
            if s < resumed_at {
                rt::violation("SUSPEND-LEAK sync overtook the suspension".into());
            }
        }
    }
    shutdown();
}

/// C15: an operation panics; the panicked object refuses everything afterwards, other objects and the pool are fine
///  ctx 0: desync on a pool thread  1: the sync caller  2: the polling task (future_desync awaited, pool 0)  3: future_desync on a pool thread
fn panic_contain(cfg: &Cfg) {
    use desync::scheduler as sch;
    let pool = cfg.pool();
    setup(pool);
    let ctx = cfg.get("ctx");
    let self_wake = cfg.opt("selfwake", 0) == 1;
    let w = World::new();
    w.prelude(cfg);
    let bad = w.raw();
    let good = w.raw();
    let qbad = match &bad { Obj::Raw(q, _) => q.clone(), _ => unreachable!() };
    let revive_gate = Gate::new_keep_stale();
    // `guard`=1: the panicking operation owns a clean-up guard whose destructor, run while the panic unwinds, uses the healthy
    // object synchronously; the healthy object must stay healthy
    let guard: Option<Arc<dyn Fn() + Send + Sync>> = if cfg.opt("guard", 0) == 1 {
        let (w1, g1) = (w.clone(), good.clone());
        Some(Arc::new(move || { w1.sync(&g1, "GUARD", Body::plain()); }))
    } else {
        None
    };
    let panicking = || Body { panic: true, on_unwind: guard.clone(), ..Body::default() };
    match ctx {
        0 => {
            w.desync(&bad, "BOOM", panicking());
        }
        1 => {
            let (w1, b1, body) = (w.clone(), bad.clone(), panicking());
            let t = spawn(move || { w1.sync(&b1, "BOOM", body); });
            if t.join().is_ok() {
                rt::violation("PANIC-LOST the panic of a sync closure did not reach the caller".into());
            }
        }
        2 => {
            let (w1, b1) = (w.clone(), bad.clone());
            let body = Body { self_wake, ..panicking() };
            let t = spawn(move || w1.future_desync(&b1, "BOOM-FD", body).wait_any());
            let _ = t.join();
        }
        4 => {
            // `revive`=1: beforehand, with one pool thread, a future operation came and went on this queue and left a (stale)
            // queue waker behind; the pool is then taken away for the panic phase, comes back, and the stale waker fires
            if cfg.opt("revive", 0) == 1 {
                use crate::h::sched as scheduler;
                scheduler().verif_set_max_threads(1);
                rt::set_census_limit(POOL_NAME, 1);
                w.future_desync(&bad, "EARLY-FD", Body::gated(&revive_gate)).detach();
                rt::quiesce();
                revive_gate.open();
                rt::quiesce();
                scheduler().verif_set_max_threads(0);
                scheduler().despawn_threads_if_overloaded();
                rt::set_census_limit(POOL_NAME, 0);
            }
            // the panicking future is run by a thread draining the queue inside sync
            w.future_desync(&bad, "BOOM-FD", Body { self_wake, ..panicking() }).detach();
            let (w1, b1) = (w.clone(), bad.clone());
            let t = spawn(move || { w1.sync(&b1, "S-behind-BOOM", Body::plain()); });
            let _ = t.join();
        }
        5 => {
            // a caller holds the queue inside sync; the panicking job is queued behind it; a second sync caller blocks, is handed
            // the queue when the first returns (no pool thread) and runs the panicking job itself: it unwinds with its own job
            // (a borrowed closure) still queued behind
            let bg = BGate::new();
            let (w1, b1, bg1) = (w.clone(), bad.clone(), bg.clone());
            let holder = spawn(move || { w1.sync(&b1, "HOLD", Body::blocking(&bg1)); });
            rt::quiesce();
            w.desync(&bad, "BOOM", panicking());
            let (w1, b1) = (w.clone(), bad.clone());
            let t = spawn(move || { w1.sync(&b1, "S-behind-BOOM", Body::plain()); });
            rt::quiesce();
            bg.open();
            join(holder, "holder");
            let _ = t.join();
        }
        _ => {
            w.future_desync(&bad, "BOOM-FD", Body { self_wake, ..panicking() }).detach();
        }
    }
    if cfg.opt("revive", 0) == 1 {
        use crate::h::sched as scheduler;
        scheduler().verif_set_max_threads(pool.max(1));
        rt::set_census_limit(POOL_NAME, pool.max(1));
        revive_gate.fire_stale();
        rt::quiesce();
    }
    // concurrent healthy work while the panic unwinds
    w.desync(&good, "G1", Body::plain());
    rt::quiesce();
    let boom_ran = w.rec.all().iter().any(|r| r.name.starts_with("BOOM") && !r.starts.is_empty());
    if !boom_ran {
        // (only possible with no pool threads and nobody draining)
        if pool > 0 || ctx == 1 || ctx == 2 || ctx == 4 || ctx == 5 {
            rt::violation("STRANDED the panicking operation never ran".into());
        }
    } else {
        // every scheduling entry point must fail loudly on the panicked object
        let ran = Arc::new(std::sync::atomic::AtomicUsize::new(0));
        let attempt = |what: &str, f: Box<dyn FnOnce() + Send>| {
            let waits = rt::blocking_waits();
            let r = std::panic::catch_unwind(std::panic::AssertUnwindSafe(f));
            if r.is_ok() {
                rt::violation(format!("PANIC-SILENT {} on a panicked queue did not panic", what));
            }
            if rt::blocking_waits() != waits {
                rt::violation(format!("PANIC-BLOCKED {} on a panicked queue blocked", what));
            }
        };
        let (q1, r1) = (qbad.clone(), ran.clone());
        attempt("desync", Box::new(move || sch::desync(&q1, move || { r1.fetch_add(1, AO::SeqCst); })));
        let (q1, r1) = (qbad.clone(), ran.clone());
        attempt("sync", Box::new(move || sch::sync(&q1, move || { r1.fetch_add(1, AO::SeqCst); })));
        let (q1, r1) = (qbad.clone(), ran.clone());
        attempt("try_sync", Box::new(move || { let _ = sch::try_sync(&q1, move || { r1.fetch_add(1, AO::SeqCst); }); }));
        let (q1, r1) = (qbad.clone(), ran.clone());
        attempt("future_desync", Box::new(move || { let f = sch::future_desync(&q1, move || async move { r1.fetch_add(1, AO::SeqCst); }); let _ = block_on(f); }));
        let (q1, r1) = (qbad.clone(), ran.clone());
        attempt("future_sync", Box::new(move || { use futures::FutureExt; let f = sch::future_sync(&q1, move || async move { r1.fetch_add(1, AO::SeqCst); }).boxed(); let _ = block_on(f); }));
        if ran.load(AO::SeqCst) != 0 {
            rt::violation("PANIC-SILENT an operation ran on a panicked queue".into());
        }
    }
    // healthy objects: a small program, and as many blocking jobs as the pool maximum (capacity restored)
    w.desync(&good, "G2", Body::plain());
    w.sync(&good, "G3", Body::plain());
    let mut bgs = vec![];
    let mut extra = vec![];
    for i in 0..pool {
        let o = w.raw();
        let bg = BGate::new();
        w.desync(&o, &format!("CAP{}", i), Body::blocking(&bg));
        bgs.push(bg);
        extra.push(o);
    }
    rt::quiesce();
    for i in 0..pool {
        let name = format!("CAP{}", i);
        if !w.rec.all().iter().any(|r| r.name == name && !r.starts.is_empty()) {
            rt::violation(format!("PANIC-CAPACITY only {} of {} blocking jobs are running after a pool thread panicked: the pool did not replace the thread it lost", i, pool));
            break;
        }
    }
    for bg in &bgs {
        bg.open();
    }
    rt::quiesce();
    if pool == 0 {
        w.sync(&good, "kick", Body::plain());
    }
    // the recorder's universal oracles for the healthy ops only
    for r in w.rec.all() {
        if r.name.starts_with("BOOM") || r.name == "S-behind-BOOM" {
            continue;
        }
        if r.accepted == Some(true) && (r.starts.len() != 1 || r.ends.len() != 1) {
            rt::violation(format!("STRANDED healthy operation {} ran {} times / finished {} times after another object's panic", r.name, r.starts.len(), r.ends.len()));
        }
    }
    expect_idle(&good);
    for o in &extra {
        expect_idle(o);
    }
    check_no_unplanned_panics_except(&["on a panicked queue"]);
    shutdown();
}

/// C10 + C15 + C03: `pool` (>= 2) pool threads each run a blocking job; all but one of those jobs then panic (so several pool
/// threads die between two scheduling calls) while the remaining one stays blocked.  Work on a fresh object must still run
/// while that job is blocked, and afterwards the pool has its full capacity again.
///  keep: which of the jobs stays blocked (and does not panic)
fn panic_many(cfg: &Cfg) {
    let pool = cfg.pool();
    setup(pool);
    let keep = cfg.opt("keep", pool as i64 - 1) as usize;
    let w = World::new();
    w.prelude(cfg);
    let mut objs = vec![];
    let mut bgs = vec![];
    for i in 0..pool {
        let o = w.raw();
        let bg = BGate::new();
        let body = Body { bgate: Some(bg.clone()), panic: i != keep, ..Body::default() };
        w.desync(&o, &if i == keep { "BLK".to_string() } else { format!("BOOM{}", i) }, body);
        rt::quiesce();
        objs.push(o);
        bgs.push(bg);
    }
    for (i, bg) in bgs.iter().enumerate() {
        if i != keep {
            bg.open();
        }
    }
    rt::quiesce();
    // a healthy object is used while one job is still blocked and the dead threads have not been reaped yet
    let f = w.raw();
    let (w1, f1) = (w.clone(), f.clone());
    let t = spawn(move || {
        w1.desync(&f1, "F1", Body::plain());
    });
    rt::quiesce();
    if !w.rec.all().iter().any(|o| o.name == "F1" && !o.ends.is_empty()) {
        rt::violation(format!("INDEP F1 on a healthy object did not run while one object was blocked, after {} pool thread(s) had died in panics (pool maximum {})", pool - 1, pool));
    }
    bgs[keep].open();
    join(t, "healthy-scheduler");
    rt::quiesce();
    // capacity: as many blocking jobs as the maximum all get a thread
    let mut caps = vec![];
    let mut cbgs = vec![];
    for i in 0..pool {
        let o = w.raw();
        let bg = BGate::new();
        w.desync(&o, &format!("CAP{}", i), Body::blocking(&bg));
        caps.push(o);
        cbgs.push(bg);
    }
    rt::quiesce();
    for i in 0..pool {
        let name = format!("CAP{}", i);
        if !w.rec.all().iter().any(|r| r.name == name && !r.starts.is_empty()) {
            rt::violation(format!("PANIC-CAPACITY only {} of {} blocking jobs are running after {} pool threads panicked: the pool did not replace the threads it lost", i, pool, pool - 1));
            break;
        }
    }
    for bg in &cbgs {
        bg.open();
    }
    rt::quiesce();
    for r in w.rec.all() {
        if r.name.starts_with("BOOM") {
            continue;
        }
        if r.accepted == Some(true) && (r.starts.len() != 1 || r.ends.len() != 1) {
            rt::violation(format!("STRANDED healthy operation {} ran {} times / finished {} times after other objects' panics", r.name, r.starts.len(), r.ends.len()));
        }
    }
    expect_idle(&f);
    expect_idle(&objs[keep]);
    for o in &caps {
        expect_idle(o);
    }
    check_no_unplanned_panics_except(&["on a panicked queue"]);
    shutdown();
}

/// C17: threads racing through "no dormant thread -> spawn", then phases that change the maximum
///  n: number of concurrent scheduling threads (distinct queues); phase 1: raise the maximum and schedule more;
///  phase 2: lower it and despawn
fn pool_census(cfg: &Cfg) {
    use crate::h::sched as scheduler;
    let pool = cfg.pool();
    // `api`=1: the maximum is changed through the public `set_max_threads` (which eagerly starts threads) instead of the hook
    let api = cfg.opt("api", 0) == 1;
    let set_max = move |n: usize| {
        if api {
            scheduler().set_max_threads(n)
        } else {
            scheduler().verif_set_max_threads(n)
        }
    };
    rt::set_census_limit(POOL_NAME, pool);
    set_max(pool);
    let (n, phases) = (cfg.opt("n", 2) as usize, cfg.opt("phases", 0));
    let w = World::new();
    w.prelude(cfg);
    let mut objs = vec![];
    let mut hs = vec![];
    for i in 0..n {
        let o = w.raw();
        let (w1, o1) = (w.clone(), o.clone());
        hs.push(spawn(move || {
            w1.desync(&o1, &format!("J{}", i), Body::plain());
        }));
        objs.push(o);
    }
    if phases == 5 {
        // the maximum is raised by one while the others schedule
        rt::set_census_limit(POOL_NAME, pool + 1);
        hs.push(spawn(move || {
            set_max(pool + 1);
        }));
    }
    if cfg.opt("dbg", 0) == 1 {
        // an observer formats the scheduler's Debug text (it takes the thread list and every busy flag) while the others schedule
        hs.push(spawn(move || {
            let text = format!("{:?}", scheduler());
            rt::outcome(format!("dbg-len={}", text.len().min(1)));
        }));
    }
    for (i, h) in hs.into_iter().enumerate() {
        join(h, &format!("sched{}", i));
    }
    rt::quiesce();
    if pool == 0 && phases != 5 && rt::created_threads_named(POOL_NAME) != 0 {
        rt::violation("CENSUS a pool thread was created although the maximum is 0".into());
    }
    if phases == 4 {
        // one more thread than objects... a job on the most recently spawned pool thread panics (the thread is dead but not yet
        // reaped: no scheduling call follows); then the maximum is lowered and the pool brought down
        let newmax = pool + 2;
        rt::set_census_limit(POOL_NAME, newmax);
        set_max(newmax);
        let mut extra = vec![];
        let mut bgs = vec![];
        for i in 0..newmax {
            let o = w.raw();
            let bg = BGate::new();
            let body = Body { bgate: Some(bg.clone()), panic: i == newmax - 1, ..Body::default() };
            w.desync(&o, &format!("K{}", i), body);
            bgs.push(bg);
            extra.push(o);
        }
        rt::quiesce();
        for bg in &bgs {
            bg.open();
        }
        rt::quiesce();
        let lower = 1;
        set_max(lower);
        scheduler().despawn_threads_if_overloaded();
        rt::set_census_limit(POOL_NAME, lower);
        if rt::live_threads_named(POOL_NAME) > lower {
            rt::violation(format!("CENSUS {} pool threads alive after lowering the maximum to {} and despawning (one thread had died in a panic and was not reaped yet)", rt::live_threads_named(POOL_NAME), lower));
        }
        for (i, o) in objs.iter().enumerate() {
            w.desync(o, &format!("L{}", i), Body::plain());
        }
        rt::quiesce();
        if rt::live_threads_named(POOL_NAME) > lower {
            rt::violation(format!("CENSUS {} pool threads alive with maximum {}", rt::live_threads_named(POOL_NAME), lower));
        }
        // (the object whose job panicked is not checked for idleness)
        for o in &extra[..extra.len() - 1] {
            expect_idle(o);
        }
    } else if phases == 3 {
        // lower the maximum while every pool thread is busy: despawn must wait for the surplus threads and bring the pool down
        let mut bgs = vec![];
        let nest = cfg.opt("nest", 0) == 1;
        let mut nested = vec![];
        for (i, o) in objs.iter().enumerate() {
            let bg = BGate::new();
            let mut body = Body::blocking(&bg);
            if nest {
                // once released, the job schedules more work (on another queue) from the pool thread that is being despawned
                let nq = w.raw();
                let (w2, nq2, name) = (w.clone(), nq.clone(), format!("N{}", i));
                body.action = Some(Arc::new(move || { w2.desync(&nq2, &name, Body::plain()); }));
                nested.push(nq);
            }
            w.desync(o, &format!("K{}", i), body);
            bgs.push(bg);
        }
        rt::quiesce();
        let opener = spawn(move || {
            for bg in &bgs {
                bg.open();
            }
        });
        let lower = if pool > 0 { pool - 1 } else { 0 };
        set_max(lower);
        scheduler().despawn_threads_if_overloaded();
        rt::set_census_limit(POOL_NAME, lower);
        if rt::live_threads_named(POOL_NAME) > lower {
            rt::violation(format!("CENSUS {} pool threads alive after lowering the maximum to {} and despawning while they were busy", rt::live_threads_named(POOL_NAME), lower));
        }
        join(opener, "opener");
        for (i, o) in objs.iter().enumerate() {
            w.desync(o, &format!("L{}", i), Body::plain());
        }
        rt::quiesce();
        if rt::live_threads_named(POOL_NAME) > lower {
            rt::violation(format!("CENSUS {} pool threads alive with maximum {}", rt::live_threads_named(POOL_NAME), lower));
        }
        if lower == 0 {
            for o in objs.iter().chain(nested.iter()) {
                w.sync(o, "kick", Body::plain());
            }
        }
        for o in &nested {
            expect_idle(o);
        }
    } else if phases >= 1 {
        // raise the maximum by one and schedule blocking work on every object: exactly max threads may exist
        let newmax = pool + 1;
        rt::set_census_limit(POOL_NAME, newmax);
        set_max(newmax);
        let mut bgs = vec![];
        for (i, o) in objs.iter().enumerate() {
            let bg = BGate::new();
            w.desync(o, &format!("K{}", i), Body::blocking(&bg));
            bgs.push(bg);
        }
        rt::quiesce();
        if rt::live_threads_named(POOL_NAME) > newmax {
            rt::violation(format!("CENSUS {} pool threads alive with maximum {}", rt::live_threads_named(POOL_NAME), newmax));
        }
        for bg in &bgs {
            bg.open();
        }
        rt::quiesce();
        if phases >= 2 {
            // lower the maximum: despawn must bring the pool down and return
            let lower = if pool > 0 { pool - 1 } else { 0 };
            set_max(lower);
            scheduler().despawn_threads_if_overloaded();
            rt::set_census_limit(POOL_NAME, lower);
            if rt::live_threads_named(POOL_NAME) > lower {
                rt::violation(format!("CENSUS {} pool threads alive after lowering the maximum to {} and despawning", rt::live_threads_named(POOL_NAME), lower));
            }
            // the smaller pool still works
            for (i, o) in objs.iter().enumerate() {
                w.desync(o, &format!("L{}", i), Body::plain());
            }
            rt::quiesce();
            if lower == 0 {
                for o in &objs {
                    w.sync(o, "kick", Body::plain());
                }
            }
        }
    } else if pool == 0 {
        for o in &objs {
            w.sync(o, "kick", Body::plain());
        }
    }
    w.check_quiet();
    for o in &objs {
        expect_idle(o);
    }
    check_no_unplanned_panics();
    shutdown();
}

/// C01 flagship: a suspended future in front, then desync, a sync caller, a try_sync caller and the
/// wake-up all racing; the occupancy oracle is armed in every body (also across the await)
fn excl_susp(cfg: &Cfg) {
    let pool = cfg.pool();
    setup(pool);
    let kind = cfg.opt("kind", 0);
    let w = World::new();
    w.prelude(cfg);
    let q = mkobj(&w, cfg);
    let g = Gate::new();
    let mut hs = vec![];
    match kind {
        0 => w.future_desync(&q, "FD", Body::gated(&g)).detach(),
        1 => {
            let (w1, q1, g1) = (w.clone(), q.clone(), g.clone());
            hs.push(spawn(move || w1.future_sync(&q1, "FS", Body::gated(&g1)).wait()));
        }
        _ => {
            let (w1, q1, g1) = (w.clone(), q.clone(), g.clone());
            hs.push(spawn(move || w1.future_desync(&q1, "FD", Body::gated(&g1)).wait()));
        }
    }
    w.desync(&q, "D", Body::plain());
    {
        let (w1, q1) = (w.clone(), q.clone());
        hs.push(spawn(move || { w1.sync(&q1, "S", Body::plain()); }));
    }
    {
        let (w1, q1, g1) = (w.clone(), q.clone(), g.clone());
        hs.push(spawn(move || {
            w1.try_sync(&q1, "T", Body::plain());
            g1.open();
        }));
    }
    for (i, h) in hs.into_iter().enumerate() {
        join(h, &format!("t{}", i));
    }
    finish(&w, &[&q], pool);
    shutdown();
}

/// C02: real-time order across threads: thread 1 calls `a` then tells thread 2 (through a channel),
/// thread 2 then calls `b`; an earlier op puts the queue in a chosen runner context
///  a, b: 0 desync 1 sync 2 try_sync 3 future_desync(detached) 4 future_sync(awaited) 5 after(detached)
///  pre: 0 nothing 1 a desync queued earlier 2 a gated future queued earlier (queue suspended at the calls)
fn order_ctx(cfg: &Cfg) {
    let pool = cfg.pool();
    setup(pool);
    let (a, b, pre) = (cfg.get("a"), cfg.get("b"), cfg.opt("pre", 0));
    let w = World::new();
    w.prelude(cfg);
    let q = mkobj(&w, cfg);
    let g = Gate::new();
    let open_gate = Gate::new();
    open_gate.open();
    match pre {
        1 => {
            w.desync(&q, "PRE", Body::plain());
        }
        2 => w.future_desync(&q, "PRE-FD", Body::gated(&g)).detach(),
        _ => {}
    }
    let do_op = |w: &Arc<World>, q: &Obj, code: i64, name: &str, og: &Gate| match code {
        0 => {
            w.desync(q, name, Body::plain());
        }
        1 => {
            w.sync(q, name, Body::plain());
        }
        2 => {
            w.try_sync(q, name, Body::plain());
        }
        3 => w.future_desync(q, &format!("{}-FD", name), Body::plain()).detach(),
        4 => w.future_sync(q, &format!("{}-FS", name), Body::plain()).wait(),
        _ => w.after(q, &format!("{}-AF", name), og, Body::plain()).detach(),
    };
    let (tx, rx) = vsched::sync::mpsc::channel::<()>();
    let (w1, q1, og1) = (w.clone(), q.clone(), open_gate.clone());
    let t1 = spawn(move || {
        do_op(&w1, &q1, a, "A", &og1);
        tx.send(()).unwrap();
    });
    let (w2, q2, og2) = (w.clone(), q.clone(), open_gate.clone());
    let t2 = spawn(move || {
        rx.recv().unwrap();
        do_op(&w2, &q2, b, "B", &og2);
    });
    g.open();
    join(t1, "t1");
    join(t2, "t2");
    finish(&w, &[&q], pool);
    shutdown();
}

/// C03: stale schedule entries.  Every pool thread is pinned by a blocking job; a queue is scheduled
/// (entry pushed), then claimed and run by a caller (`how` 0: sync drains it, 1: a task polls its future,
/// 2: try_sync-free variant where a second sync steals it), leaving its entry behind; another queue is
/// then scheduled behind the stale entry and only afterwards do the pool threads become free.
fn stale_entry(cfg: &Cfg) {
    let pool = cfg.pool();
    setup(pool);
    let how = cfg.opt("how", 0);
    let w = World::new();
    w.prelude(cfg);
    let mut pins = vec![];
    for i in 0..pool {
        let bq = w.raw();
        let bg = BGate::new();
        w.desync(&bq, &format!("pin{}", i), Body::blocking(&bg));
        pins.push((bq, bg));
    }
    // let the pool threads pick the pins up
    rt::quiesce();
    let mut objs = vec![];
    for i in 0..pool.max(1) {
        let a = w.raw();
        match how {
            0 => {
                w.desync(&a, &format!("A{}", i), Body::plain());
                w.sync(&a, &format!("SA{}", i), Body::plain());
            }
            _ => {
                let h = w.future_desync(&a, &format!("A{}-FD", i), Body::plain());
                h.wait();
            }
        }
        objs.push(a);
    }
    let b = w.raw();
    let (w1, b1) = (w.clone(), b.clone());
    let t = spawn(move || { w1.desync(&b1, "B", Body::plain()); });
    for (_, bg) in &pins {
        bg.open();
    }
    join(t, "t");
    objs.push(b);
    let mut all: Vec<&Obj> = objs.iter().collect();
    for (bq, _) in &pins {
        all.push(bq);
    }
    finish(&w, &all, pool);
    shutdown();
}

/// C01: a future_desync future is polled `k` times and dropped while its operation is suspended or
/// has been taken over by another runner; a second thread issues `other` (0 sync, 1 try_sync, 2 desync)
/// on the same object; the environment opens the gate.
fn excl_drop(cfg: &Cfg) {
    let pool = cfg.pool();
    setup(pool);
    let (k, other) = (cfg.opt("k", 1) as usize, cfg.opt("other", 0));
    let w = World::new();
    w.prelude(cfg);
    let q = mkobj(&w, cfg);
    let g = Gate::new();
    let mut hs = vec![];
    {
        let (w1, q1, g1) = (w.clone(), q.clone(), g.clone());
        let self_open = cfg.opt("opener", 1) == 1;
        hs.push(spawn(move || {
            let h = w1.future_desync(&q1, "FD", Body::gated(&g1));
            let g2 = g1.clone();
            h.poll_then(k, move || {
                if self_open {
                    g2.open()
                }
            })
        }));
    }
    {
        let (w1, q1) = (w.clone(), q.clone());
        hs.push(spawn(move || match other {
            0 => {
                w1.sync(&q1, "S", Body::plain());
            }
            1 => {
                w1.try_sync(&q1, "T", Body::plain());
            }
            _ => {
                w1.desync(&q1, "D", Body::plain());
            }
        }));
    }
    if cfg.opt("opener", 1) == 0 {
        g.open();
    }
    for (i, h) in hs.into_iter().enumerate() {
        join(h, &format!("t{}", i));
    }
    finish(&w, &[&q], pool);
    shutdown();
}

/// C10 with stale schedule entries: object X is blocked for good (pins one of the `pool` threads), the
/// other pool threads are momentarily busy (blocking jobs released by the environment); meanwhile a
/// queue is scheduled and then run by its caller (leaving its schedule entry behind) and another
/// object's work is scheduled behind that entry.  Once a pool thread becomes free the other object's
/// work must run although X stays blocked.
fn indep_stale(cfg: &Cfg) {
    let pool = cfg.pool();
    setup(pool);
    let how = cfg.opt("how", 0);
    let w = World::new();
    w.prelude(cfg);
    let x = w.raw();
    let xg = BGate::new();
    w.desync(&x, "X-blocked", Body::blocking(&xg));
    let mut busy = vec![];
    for i in 1..pool {
        let y = w.raw();
        let yg = BGate::new();
        w.desync(&y, &format!("Y{}", i), Body::blocking(&yg));
        busy.push((y, yg));
    }
    rt::quiesce();
    let a = w.raw();
    match how {
        0 => {
            w.desync(&a, "A", Body::plain());
            w.sync(&a, "SA", Body::plain());
        }
        _ => {
            w.future_desync(&a, "A-FD", Body::plain()).wait();
        }
    }
    let b = w.raw();
    let (w1, b1) = (w.clone(), b.clone());
    let t = spawn(move || { w1.desync(&b1, "B", Body::plain()); });
    for (_, yg) in &busy {
        yg.open();
    }
    join(t, "t");
    // X is still blocked here
    rt::quiesce();
    if !w.rec.all().iter().any(|o| o.name == "B" && !o.ends.is_empty()) {
        rt::violation(format!("INDEP B did not run although a pool thread became free while another object stayed blocked (pool maximum {})", pool));
    }
    xg.open();
    let mut all: Vec<&Obj> = vec![&x, &a, &b];
    for (y, _) in &busy {
        all.push(y);
    }
    finish(&w, &all, pool);
    shutdown();
}

/// C06 with a saturated pool and stale schedule entries: a gated future op on queue C is suspended on a
/// pool thread; every pool thread is then pinned by blocking jobs; a queue is scheduled and run by its
/// caller (stale entry); the wake-up arrives (C is appended behind the stale entry); only then do the
/// pool threads become free.  The suspended op must be polled again and the marker behind it must run.
fn wake_stale_entry(cfg: &Cfg) {
    let pool = cfg.pool();
    setup(pool);
    let kind = cfg.opt("kind", 0);
    let w = World::new();
    w.prelude(cfg);
    let c = w.raw();
    let g = Gate::new();
    if kind == 0 {
        w.future_desync(&c, "FD", Body::gated(&g)).detach();
    } else {
        w.after(&c, "AF", &g, Body::plain()).detach();
    }
    w.desync(&c, "M", Body::plain());
    // let a pool thread poll it: it suspends
    rt::quiesce();
    let mut pins = vec![];
    for i in 0..pool {
        let bq = w.raw();
        let bg = BGate::new();
        w.desync(&bq, &format!("pin{}", i), Body::blocking(&bg));
        pins.push((bq, bg));
    }
    rt::quiesce();
    let b = w.raw();
    w.desync(&b, "B", Body::plain());
    w.sync(&b, "SB", Body::plain());
    let g2 = g.clone();
    let t = spawn(move || g2.open());
    for (_, bg) in &pins {
        bg.open();
    }
    join(t, "env");
    let mut all: Vec<&Obj> = vec![&c, &b];
    for (bq, _) in &pins {
        all.push(bq);
    }
    finish(&w, &all, pool);
    shutdown();
}

/// C10 when the scheduling calls themselves race: `n` threads each schedule a job that blocks for an
/// arbitrarily long time on its own object, with no pool thread existing yet and a maximum of at least
/// `n`; at the first quiescence (gates closed) every one of them must have started.
fn indep_race(cfg: &Cfg) {
    let pool = cfg.pool();
    setup(pool);
    let n = cfg.opt("n", 2) as usize;
    let w = World::new();
    w.prelude(cfg);
    let mut objs = vec![];
    let mut bgs = vec![];
    let mut hs = vec![];
    for i in 0..n {
        let o = w.raw();
        let bg = BGate::new();
        let (w1, o1, bg1) = (w.clone(), o.clone(), bg.clone());
        hs.push(spawn(move || {
            w1.desync(&o1, &format!("BLK{}", i), Body::blocking(&bg1));
        }));
        objs.push(o);
        bgs.push(bg);
    }
    for (i, h) in hs.into_iter().enumerate() {
        join(h, &format!("sched{}", i));
    }
    rt::quiesce();
    for i in 0..n.min(pool) {
        let name = format!("BLK{}", i);
        if !w.rec.all().iter().any(|r| r.name == name && !r.starts.is_empty()) {
            let started = w.rec.all().iter().filter(|r| !r.starts.is_empty()).count();
            rt::violation(format!("INDEP only {} of {} blocking operations on different objects are running although the pool maximum is {}", started, n, pool));
            break;
        }
    }
    for bg in &bgs {
        bg.open();
    }
    let all: Vec<&Obj> = objs.iter().collect();
    finish(&w, &all, pool);
    shutdown();
}

/// C04: two sync callers blocked in the background on one busy queue, a future operation queued between
/// their jobs.  The first caller returns while the second is still registered and waiting; the queue is
/// then suspended, every pool thread becomes busy elsewhere, and only then does the wake-up arrive: the
/// second caller must still be told, so that it can run the queue itself.
fn sync_wipe(cfg: &Cfg) {
    let pool = cfg.pool();
    setup(pool);
    let w = World::new();
    w.prelude(cfg);
    let q = w.raw();
    let (bg_j, g) = (BGate::new(), Gate::new());
    w.desync(&q, "J", Body::blocking(&bg_j));
    rt::quiesce();
    let mut hs = vec![];
    {
        let (w1, q1) = (w.clone(), q.clone());
        hs.push(spawn(move || { w1.sync(&q1, "B", Body::plain()); }));
    }
    rt::quiesce();
    w.future_desync(&q, "FD", Body::gated(&g)).detach();
    {
        let (w1, q1) = (w.clone(), q.clone());
        hs.push(spawn(move || { w1.sync(&q1, "C", Body::plain()); }));
    }
    rt::quiesce();
    // work for the pool threads once they are done with J: it keeps them busy while the wake-up arrives
    let mut pins = vec![];
    for i in 0..pool {
        let x = w.raw();
        let bg = BGate::new();
        w.desync(&x, &format!("X{}", i), Body::blocking(&bg));
        pins.push((x, bg));
    }
    bg_j.open();
    rt::quiesce();
    let g1 = g.clone();
    let env = spawn(move || g1.open());
    for (i, h) in hs.into_iter().enumerate() {
        join(h, &format!("caller{}", i));
    }
    join(env, "env");
    for (_, bg) in &pins {
        bg.open();
    }
    let mut all: Vec<&Obj> = vec![&q];
    for (x, _) in &pins {
        all.push(x);
    }
    finish(&w, &all, pool);
    shutdown();
}

/// C01 / C07: a returned future that once drained its queue itself is polled again much later, after the queue has changed
/// hands twice.  The pool (`pool` threads) is pinned; the caller polls FD (two awaits: g1, g2) by hand, so the future runs the
/// queue itself and suspends at g1; the pool is released and takes the queue over (re-polls, suspends again), then it is
/// pinned once more; g1 fires with no free thread; a second context (`who`: 0 a thread in sync, 1 a task awaiting another
/// future_desync, 2 a thread in try_sync + sync) becomes the runner and suspends at g2 with a desync queued behind; the
/// caller polls the old future again while g2 fires.
fn repoll(cfg: &Cfg) {
    let pool = cfg.pool();
    setup(pool);
    let who = cfg.opt("who", 0);
    let w = World::new();
    w.prelude(cfg);
    let q = mkobj(&w, cfg);
    let (g1, g2) = (Gate::new(), Gate::new());
    let (bg1, bg2) = (BGate::new(), BGate::new());
    let mut pins: Vec<Obj> = vec![];
    for i in 0..pool {
        let b = w.raw();
        w.desync(&b, &format!("PIN-A{}", i), Body::blocking(&bg1));
        pins.push(b);
    }
    rt::quiesce();
    let mut h = w.future_desync(&q, "FD", Body { gate: Some(g1.clone()), gate2: Some(g2.clone()), ..Body::default() });
    let mut f = Box::pin(h.fut.take().unwrap());
    let (wk, _count) = counting_waker();
    let mut cx = futures::task::Context::from_waker(&wk);
    use std::future::Future;
    let mut resolved = false;
    let mut poll_fd = |f: &mut std::pin::Pin<Box<desync::scheduler::SchedulerFuture<u64>>>, resolved: &mut bool| {
        if *resolved {
            return;
        }
        if let futures::task::Poll::Ready(r) = f.as_mut().poll(&mut cx) {
            *resolved = true;
            if r != Ok(h.token) {
                rt::violation("FUTURE-RESULT FD resolved to the wrong value".into());
            }
        }
    };
    poll_fd(&mut f, &mut resolved);
    if cfg.opt("stop", 0) == 1 {
        // `stop`=1: the pool comes back and takes the queue over *while* the owner disposes of its future (`fin`: 0 polls it
        // again, 1 calls .sync() on it, 2 drops it) and the events fire; a desync is queued behind
        let env = {
            let (a, b) = (g1.clone(), g2.clone());
            spawn(move || {
                a.open();
                b.open();
            })
        };
        bg1.open();
        w.desync(&q, "D", Body::plain());
        match cfg.opt("fin", 0) {
            0 => {
                poll_fd(&mut f, &mut resolved);
                join(env, "env");
                rt::quiesce();
                if !resolved {
                    let prev = rt::note("in:await-fd FD");
                    let r = block_on(f);
                    rt::note(&prev);
                    if r != Ok(h.token) {
                        rt::violation("FUTURE-RESULT FD (awaited late) resolved to the wrong value".into());
                    }
                }
            }
            1 => {
                let prev = rt::note("in:fd.sync FD");
                let fut = *std::pin::Pin::into_inner(f);
                let r = if resolved { Ok(h.token) } else { fut.sync() };
                rt::note(&prev);
                if r != Ok(h.token) {
                    rt::violation("FUTURE-RESULT FD.sync() returned the wrong value".into());
                }
                if w.rec.get(h.op).ends.is_empty() {
                    rt::violation("RESULT-BEFORE-END FD.sync() returned before the operation had finished".into());
                }
                join(env, "env");
            }
            _ => {
                drop(f);
                join(env, "env");
            }
        }
        let mut objs: Vec<&Obj> = vec![&q];
        objs.extend(pins.iter());
        finish(&w, &objs, pool);
        shutdown();
        return;
    }
    // the pool comes back and takes the suspended queue over
    bg1.open();
    rt::quiesce();
    for i in 0..pool {
        w.desync(&pins[i], &format!("PIN-B{}", i), Body::blocking(&bg2));
    }
    rt::quiesce();
    // first event: nobody is free to run the queue
    g1.open();
    rt::quiesce();
    // a second context becomes the runner and suspends at the second await
    let t = {
        let (w1, q1) = (w.clone(), q.clone());
        spawn(move || match who {
            0 => {
                w1.sync(&q1, "S", Body::plain());
            }
            1 => w1.future_desync(&q1, "FD2", Body::plain()).wait(),
            _ => {
                w1.try_sync(&q1, "T", Body::plain());
                w1.sync(&q1, "S", Body::plain());
            }
        })
    };
    rt::quiesce();
    w.desync(&q, "D", Body::plain());
    let opener = {
        let g = g2.clone();
        spawn(move || g.open())
    };
    // the old future is polled again, at every moment relative to the second event
    poll_fd(&mut f, &mut resolved);
    join(opener, "opener");
    join(t, "second-context");
    bg2.open();
    rt::quiesce();
    if !resolved {
        let prev = rt::note("in:await-fd FD");
        let r = block_on(f);
        rt::note(&prev);
        if r != Ok(h.token) {
            rt::violation("FUTURE-RESULT FD (awaited late) resolved to the wrong value".into());
        }
    }
    let mut objs: Vec<&Obj> = vec![&q];
    objs.extend(pins.iter());
    finish(&w, &objs, pool);
    shutdown();
}

/// C04 / C14: a blocking wait nested inside another blocking wait *on the same thread*.  Objects q and x are both held by
/// threads inside `sync` (blocking jobs).  A job J queued on q itself does `inner` on x (0 sync, 1 drops the last owner of a
/// third busy object, 2 `.sync()` on a future_desync of x).  Thread T calls sync(q): it waits in the background, takes q over
/// when its holder lets go (no free pool thread), runs J, and so waits a second time, for x, inside its first wait.
fn nested_wait(cfg: &Cfg) {
    let pool = cfg.pool();
    setup(pool);
    let inner = cfg.opt("inner", 0);
    let w = World::new();
    w.prelude(cfg);
    let q = mkobj(&w, cfg);
    let x = mkobj(&w, cfg);
    let (bgq, bgx) = (BGate::new(), BGate::new());
    let h1 = {
        let (w1, q1, b) = (w.clone(), q.clone(), bgq.clone());
        spawn(move || { w1.sync(&q1, "HOLD-Q", Body::blocking(&b)); })
    };
    let h2 = {
        let (w1, x1, b) = (w.clone(), x.clone(), bgx.clone());
        spawn(move || { w1.sync(&x1, "HOLD-X", Body::blocking(&b)); })
    };
    rt::quiesce();
    {
        let (w1, x1) = (w.clone(), x.clone());
        w.desync(&q, "J", Body::with(move || match inner {
            2 => w1.future_desync(&x1, "J/fd.sync", Body::plain()).sync(),
            _ => { w1.sync(&x1, "J/xsync", Body::plain()); }
        }));
    }
    let t = {
        let (w1, q1) = (w.clone(), q.clone());
        spawn(move || { w1.sync(&q1, "S", Body::plain()); })
    };
    if cfg.opt("seq", 0) == 1 {
        // the holders let go one after the other: x only after T has started its second wait
        rt::quiesce();
        bgq.open();
        join(h1, "holder-q");
        rt::quiesce();
        bgx.open();
    } else {
        // the holders let go at explored moments
        let e = {
            let b = bgx.clone();
            spawn(move || b.open())
        };
        bgq.open();
        join(e, "x-release");
        join(h1, "holder-q");
    }
    join(h2, "holder-x");
    join(t, "t");
    finish(&w, &[&q, &x], pool);
    shutdown();
}

/// C05 / C14: the protected value has no destructor of its own (`Desync<u64>`: no drop glue), so nothing but the ordering of
/// `Desync::drop` itself shows whether it waited.  `state`: 0 a desync job is running (blocked on a gate), 1 a desync job is
/// queued behind it as well, 2 a future_desync operation is suspended at an await.  The last owner is dropped by another
/// thread while the environment releases the gate; every job writes the value after a scheduling point.
fn drop_plain(cfg: &Cfg) {
    use desync::Desync;
    use futures::FutureExt;
    use std::sync::atomic::AtomicU64;
    let pool = cfg.pool();
    setup(pool);
    let state = cfg.opt("state", 0);
    let w = World::new();
    w.prelude(cfg);
    let d = Desync::new(7u64);
    let ended = Arc::new(AtomicU64::new(0));
    let expected = if state == 1 { 2 } else { 1 };
    let finished = Arc::new(std::sync::atomic::AtomicUsize::new(0));
    let bg = BGate::new();
    let g = Gate::new();
    match state {
        0 | 1 => {
            let (b, e, f) = (bg.clone(), ended.clone(), finished.clone());
            d.desync(move |v| {
                b.wait();
                vsched::thread::yield_now();
                *v += 1;
                e.store(rt::tick(), AO::SeqCst);
                f.fetch_add(1, AO::SeqCst);
            });
            if state == 1 {
                let (e, f) = (ended.clone(), finished.clone());
                d.desync(move |v| {
                    vsched::thread::yield_now();
                    *v += 1;
                    e.store(rt::tick(), AO::SeqCst);
                    f.fetch_add(1, AO::SeqCst);
                });
            }
        }
        _ => {
            let (g1, e, f) = (g.clone(), ended.clone(), finished.clone());
            d.future_desync(move |v| {
                async move {
                    g1.await;
                    vsched::thread::yield_now();
                    *v += 1;
                    e.store(rt::tick(), AO::SeqCst);
                    f.fetch_add(1, AO::SeqCst);
                }
                .boxed()
            })
            .detach();
        }
    }
    let dropped_at = Arc::new(AtomicU64::new(0));
    let t = {
        let da = dropped_at.clone();
        spawn(move || {
            drop(d);
            da.store(rt::tick(), AO::SeqCst);
        })
    };
    if state == 2 {
        g.open();
    } else {
        bg.open();
    }
    join(t, "dropper");
    let n = finished.load(AO::SeqCst);
    if n != expected {
        rt::violation(format!("DROP-EARLY Desync::drop returned although only {} of {} operations scheduled beforehand had finished", n, expected));
    } else if ended.load(AO::SeqCst) > dropped_at.load(AO::SeqCst) {
        rt::violation("DROP-EARLY an operation scheduled before the drop finished after Desync::drop had returned".into());
    }
    rt::quiesce();
    check_no_unplanned_panics();
    shutdown();
}

/// C06 / C10 / C03: a sync caller that is handed its queue must leave the *other* queues' schedule entries alone.  One pool
/// thread first polls B's gated future operation (B suspends), then is pinned by another object's blocking job.  `stale`=1: a
/// desync + sync on A leave a stale schedule entry for A.  B's event fires with no free thread (B waits in the schedule).  A is
/// held by a thread inside sync, a desync is queued on A and a second thread blocks in sync(A); the holder lets go, A goes
/// back into the schedule and the blocked caller claims it.  Then the pool thread is released: B must be polled again.
/// (`bfirst`=1: B's event fires only after A's first entry was consumed, so that B's entry is the oldest one)
fn claim_others(cfg: &Cfg) {
    let pool = cfg.pool();
    setup(pool);
    let w = World::new();
    w.prelude(cfg);
    let a = w.raw();
    let b = w.raw();
    let gb = Gate::new();
    let (bg_pin, bg_a) = (BGate::new(), BGate::new());
    w.future_desync(&b, "FD-B", Body::gated(&gb)).detach();
    w.desync(&b, "M-B", Body::plain());
    rt::quiesce();
    let mut pins = vec![];
    for i in 0..pool {
        let p = w.raw();
        w.desync(&p, &format!("PIN{}", i), Body::blocking(&bg_pin));
        pins.push(p);
    }
    rt::quiesce();
    if cfg.opt("stale", 1) == 1 {
        w.desync(&a, "D1", Body::plain());
        w.sync(&a, "S1", Body::plain());
    }
    gb.open();
    rt::quiesce();
    let holder = {
        let (w1, a1, bg) = (w.clone(), a.clone(), bg_a.clone());
        spawn(move || { w1.sync(&a1, "HOLD-A", Body::blocking(&bg)); })
    };
    rt::quiesce();
    w.desync(&a, "D2", Body::plain());
    let waiter = {
        let (w1, a1) = (w.clone(), a.clone());
        spawn(move || { w1.sync(&a1, "S2", Body::plain()); })
    };
    rt::quiesce();
    bg_a.open();
    join(holder, "holder");
    join(waiter, "waiter");
    bg_pin.open();
    let mut objs: Vec<&Obj> = vec![&a, &b];
    objs.extend(pins.iter());
    finish(&w, &objs, pool);
    if gb.polls() < 2 {
        rt::violation("WAKE-LOST the suspended operation on B was woken but never polled again".into());
    }
    shutdown();
}
