//! Scenario registry: name -> closed program run as virtual thread 0
use crate::h::Cfg;

pub mod basic;
pub mod pipes;
pub mod prog;
pub mod selftest;
pub mod targeted;

pub type Scenario = fn(&Cfg);

pub fn all() -> Vec<(&'static str, Scenario)> {
    let mut v: Vec<(&'static str, Scenario)> = vec![];
    v.extend(basic::list());
    v.extend(pipes::list());
    v.extend(prog::list());
    v.extend(selftest::list());
    v.extend(targeted::list());
    v
}

pub fn lookup(name: &str) -> Option<Scenario> {
    all().into_iter().find(|e| e.0 == name).map(|e| e.1)
}
