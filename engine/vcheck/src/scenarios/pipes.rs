//! pipe / pipe_in scenarios (C11, C12, C16)
use crate::h::*;
use desync::{pipe, pipe_in, Desync};
use futures::{FutureExt, StreamExt};
use std::sync::atomic::{AtomicUsize, Ordering as AO};
use std::sync::Arc;
use vsched::rt;

pub fn list() -> Vec<(&'static str, super::Scenario)> {
    vec![("pipe_drop_output", pipe_drop_output)]
}

fn dobj(w: &World) -> (Arc<Desync<Payload>>, Arc<ObjState>) {
    match w.desync_obj() {
        Obj::D(d, st) => (d, st),
        _ => unreachable!(),
    }
}

/// C16: the output stream of a pipe is dropped while the producer is at every possible position;
/// the input stays silent afterwards.
/// mode 0: one item arrives concurrently with the drop; 1: no item at all (idle and registered);
/// 2: two items with depth 1 (throttled by back-pressure at the drop)
fn pipe_drop_output(cfg: &Cfg) {
    setup(cfg.pool());
    let mode = cfg.opt("mode", 0);
    let w = World::new();
    let (obj, st) = dobj(&w);
    let (stream, ctl) = scripted_stream(&[]);
    let closure_drops = Arc::new(AtomicUsize::new(0));
    let dc = DropCount(closure_drops.clone());
    let st2 = st.clone();
    let mut out = pipe(obj.clone(), stream, move |p: &mut Payload, item: u32| {
        let _keep = &dc;
        p.check("pipe-item");
        st2.enter("pipe-item");
        vsched::thread::yield_now();
        st2.exit();
        futures::future::ready(item + 100).boxed()
    });
    if mode == 2 {
        out.set_backpressure_depth(1);
    }
    let ctl2 = ctl.clone();
    let t1 = spawn(move || {
        match mode {
            0 => ctl2.push(1),
            2 => { ctl2.push(1); ctl2.push(2); }
            _ => {}
        }
    });
    if mode == 2 {
        // let the consumer see what is there
        let _ = block_on(out.next());
    }
    drop(out);
    join(t1, "producer");
    rt::quiesce();
    // the input stays silent from here on
    if ctl.stream_drops() != 1 {
        rt::violation(format!("PIPE-LEAK input stream not dropped after the output stream was dropped (drops={}, waker registered with input: {})", ctl.stream_drops(), ctl.waker_registered()));
    }
    if closure_drops.load(AO::SeqCst) != 1 {
        rt::violation(format!("PIPE-LEAK processing closure not dropped after the output stream was dropped (drops={})", closure_drops.load(AO::SeqCst)));
    }
    if Arc::strong_count(&obj) != 1 {
        rt::violation(format!("PIPE-LEAK the pipe still holds {} strong reference(s) on the Desync", Arc::strong_count(&obj) - 1));
    }
    drop(obj);
    if w.payload_drops.load(AO::SeqCst) != 1 {
        rt::violation(format!("DROP-COUNT payload dropped {} times", w.payload_drops.load(AO::SeqCst)));
    }
    check_no_unplanned_panics();
    rt::quiesce();
    shutdown();
}
