//! pipe / pipe_in scenarios (C11, C12, C16)
use crate::h::*;
use desync::{pipe, pipe_in, Desync};
use desync::pipe::PipeStream;
use futures::{FutureExt, StreamExt};
use std::sync::atomic::{AtomicUsize, Ordering as AO};
use std::sync::Arc;
use vsched::rt;

/// Generic input-stream behaviours selectable in every pipe scenario: `sinpoll`=k (the next k polls that find nothing wake the
/// registered waker from inside poll_next, like a cooperative yield), `seager`=1 (the waker is registered on every poll)
fn stream_env(cfg: &Cfg, ctl: &StreamCtl) {
    let k = cfg.opt("sinpoll", 0);
    if k > 0 {
        ctl.set_wake_in_poll(k as usize);
    }
    if cfg.opt("seager", 0) == 1 {
        ctl.set_eager_waker();
    }
    // `syield`=k: the next k polls are cooperative yields (wake the caller, register nothing, Pending even if items are ready)
    let y = cfg.opt("syield", 0);
    if y > 0 {
        ctl.set_yield_in_poll(y as usize);
    }
}

pub fn list() -> Vec<(&'static str, super::Scenario)> {
    vec![("pipe_drop_output", pipe_drop_output), ("pipe_in_items", pipe_in_items), ("pipe_out", pipe_out), ("pipe_steal", pipe_steal), ("pipe_rewake", pipe_rewake), ("pipe_partial", pipe_partial), ("pipe_fs", pipe_fs)]
}

fn dobj(w: &World) -> (Arc<Desync<Payload>>, Arc<ObjState>) {
    match w.desync_obj() {
        Obj::D(d, st) => (d, st),
        _ => unreachable!(),
    }
}

/// C16: the output stream of a pipe is dropped while the producer is at every possible position;
/// the input stays silent afterwards.
/// mode 0: one item arrives concurrently with the drop; 1: no item at all (idle and registered);
/// 2: two items with depth 1 (throttled by back-pressure at the drop)
fn pipe_drop_output(cfg: &Cfg) {
    setup(cfg.pool());
    let mode = cfg.opt("mode", 0);
    let w = World::new();
    w.prelude(cfg);
    let (obj, st) = dobj(&w);
    let (stream, ctl) = scripted_stream(&[]);
    stream_env(cfg, &ctl);
    let closure_drops = Arc::new(AtomicUsize::new(0));
    let dc = DropCount(closure_drops.clone());
    let st2 = st.clone();
    let mut out = pipe(obj.clone(), stream, move |p: &mut Payload, item: u32| {
        let _keep = &dc;
        p.check("pipe-item");
        st2.enter("pipe-item");
        vsched::thread::yield_now();
        st2.exit();
        futures::future::ready(item + 100).boxed()
    });
    if mode == 2 {
        out.set_backpressure_depth(1);
    }
    if mode == 3 {
        out.set_backpressure_depth(1);
    }
    if mode == 4 {
        // the caller has already let go of the Desync (the pipe holds the last strong reference); the producer is suspended
        // inside the processing of an item when the output stream is dropped, and the awaited event only happens afterwards
        drop(out);
        let gate = Gate::new();
        let (st3, g3) = (st.clone(), gate.clone());
        let (stream2, ctl2) = scripted_stream(&[]);
        let closure_drops2 = Arc::new(AtomicUsize::new(0));
        let dc2 = DropCount(closure_drops2.clone());
        let out2 = pipe(obj.clone(), stream2, move |p: &mut Payload, item: u32| {
            let _keep = &dc2;
            p.check("pipe-item");
            let (st4, g4) = (st3.clone(), g3.clone());
            async move {
                st4.enter("pipe-item");
                g4.await;
                vsched::thread::yield_now();
                st4.exit();
                item + 100
            }
            .boxed()
        });
        let weak = Arc::downgrade(&obj);
        drop(obj);
        ctl2.push(1);
        rt::quiesce();
        let prev = rt::note("in:drop-output-stream");
        drop(out2);
        rt::note(&prev);
        gate.open();
        rt::quiesce();
        if ctl2.stream_drops() != 1 || closure_drops2.load(AO::SeqCst) != 1 {
            rt::violation(format!("PIPE-LEAK output stream dropped while the producer was suspended in the processing of an item: input stream drops={} closure drops={}", ctl2.stream_drops(), closure_drops2.load(AO::SeqCst)));
        }
        if weak.strong_count() != 0 || w.payload_drops.load(AO::SeqCst) != 1 {
            rt::violation(format!("PIPE-LEAK the Desync is still alive ({} strong references, payload dropped {} times) after the pipe that held the last reference was shut down", weak.strong_count(), w.payload_drops.load(AO::SeqCst)));
        }
        check_no_unplanned_panics();
        rt::quiesce();
        shutdown();
        return;
    }
    if mode == 5 {
        // the consumer has polled the output to Pending with a waker that *drops the output stream* when it is woken
        // (cancel-on-wake); then an item arrives: the drop happens inside the producer's wake-up call
        struct DropOutputOnWake(std::sync::Mutex<Option<PipeStream<u32>>>);
        impl futures::task::ArcWake for DropOutputOnWake {
            fn wake_by_ref(a: &Arc<Self>) {
                let s = a.0.lock().unwrap().take();
                let prev = rt::note("in:drop-output-stream");
                drop(s);
                rt::note(&prev);
            }
        }
        let slot = Arc::new(DropOutputOnWake(std::sync::Mutex::new(None)));
        let waker = futures::task::waker(slot.clone());
        let mut cx = std::task::Context::from_waker(&waker);
        if let std::task::Poll::Ready(_) = out.poll_next_unpin(&mut cx) {
            rt::violation("PIPE-OUT-ITEMS the output produced something although the input was silent".into());
        }
        *slot.0.lock().unwrap() = Some(out);
        drop(waker);
        ctl.push(1);
        rt::quiesce();
        if slot.0.lock().unwrap().is_some() {
            rt::violation("PIPE-OUT-WAKE the consumer was not woken when an item arrived".into());
        }
        if ctl.stream_drops() != 1 || closure_drops.load(AO::SeqCst) != 1 {
            rt::violation(format!("PIPE-LEAK output stream dropped inside the consumer's waker: input stream drops={} closure drops={}", ctl.stream_drops(), closure_drops.load(AO::SeqCst)));
        }
        if Arc::strong_count(&obj) != 1 {
            rt::violation(format!("PIPE-LEAK the pipe still holds {} strong reference(s) on the Desync", Arc::strong_count(&obj) - 1));
        }
        drop(obj);
        check_no_unplanned_panics();
        rt::quiesce();
        shutdown();
        return;
    }
    let ctl2 = ctl.clone();
    let t1 = spawn(move || {
        match mode {
            0 => ctl2.push(1),
            2 | 3 => { ctl2.push(1); ctl2.push(2); }
            _ => {}
        }
    });
    if mode == 3 {
        // nothing is ever read: the producer ends up parked on back-pressure, and only then is the stream dropped
        join(t1, "producer");
        rt::quiesce();
        drop(out);
        rt::quiesce();
        if ctl.stream_drops() != 1 || closure_drops.load(AO::SeqCst) != 1 {
            rt::violation(format!("PIPE-LEAK output stream dropped while the producer was throttled by back-pressure: input stream drops={} closure drops={}", ctl.stream_drops(), closure_drops.load(AO::SeqCst)));
        }
        if Arc::strong_count(&obj) != 1 {
            rt::violation(format!("PIPE-LEAK the pipe still holds {} strong reference(s) on the Desync", Arc::strong_count(&obj) - 1));
        }
        drop(obj);
        check_no_unplanned_panics();
        rt::quiesce();
        shutdown();
        return;
    }
    if mode == 2 {
        // let the consumer see what is there
        let _ = block_on(out.next());
    }
    drop(out);
    join(t1, "producer");
    rt::quiesce();
    // the input stays silent from here on
    if ctl.stream_drops() != 1 {
        rt::violation(format!("PIPE-LEAK input stream not dropped after the output stream was dropped (drops={}, waker registered with input: {})", ctl.stream_drops(), ctl.waker_registered()));
    }
    if closure_drops.load(AO::SeqCst) != 1 {
        rt::violation(format!("PIPE-LEAK processing closure not dropped after the output stream was dropped (drops={})", closure_drops.load(AO::SeqCst)));
    }
    if Arc::strong_count(&obj) != 1 {
        rt::violation(format!("PIPE-LEAK the pipe still holds {} strong reference(s) on the Desync", Arc::strong_count(&obj) - 1));
    }
    drop(obj);
    if w.payload_drops.load(AO::SeqCst) != 1 {
        rt::violation(format!("DROP-COUNT payload dropped {} times", w.payload_drops.load(AO::SeqCst)));
    }
    check_no_unplanned_panics();
    rt::quiesce();
    shutdown();
}

fn feed(ctl: &StreamCtl, n: u32, pat: i64, end: bool) {
    match pat {
        // one at a time
        1 => {
            for i in 0..n {
                ctl.push(i + 1);
            }
        }
        // bursts of two
        2 => {
            let mut i = 0;
            while i + 1 < n {
                ctl.push2(i + 1, i + 2);
                i += 2;
            }
            if i < n {
                ctl.push(i + 1);
            }
        }
        _ => {}
    }
    if end {
        ctl.end();
    }
}

/// C11: pipe_in with `n` items arriving by pattern `pat` (0 preloaded, 1 one by one from a producer
/// thread, 2 in bursts of two), a concurrent operation `conc` on the same object (0 none, 1 sync, 2 desync),
/// and either the stream ending (`fin`=0) or the Desync being dropped with the input still open (`fin`=1,
/// followed by one more input event)
fn pipe_in_items(cfg: &Cfg) {
    let pool = cfg.pool();
    setup(pool);
    let (n, pat, conc, fin) = (cfg.get("n") as u32, cfg.opt("pat", 1), cfg.opt("conc", 1), cfg.opt("fin", 0));
    let w = World::new();
    w.prelude(cfg);
    let (obj, st) = dobj(&w);
    let pre: Vec<u32> = if pat == 0 { (1..=n).collect() } else { vec![] };
    let (stream, ctl) = scripted_stream(&pre);
    stream_env(cfg, &ctl);
    // `late`=1: the input registers its waker on every poll (also the one that reports the end) and fires it once more, late
    if cfg.opt("late", 0) == 1 {
        ctl.set_eager_waker();
    }
    // `wl`=1: the producer wakes the pipe while holding its channel's lock, which the input stream's destructor also takes
    if cfg.opt("wl", 0) == 1 {
        ctl.set_wake_locked();
    }
    let closure_drops = Arc::new(AtomicUsize::new(0));
    let dc = DropCount(closure_drops.clone());
    let st2 = st.clone();
    let processed = Arc::new(std::sync::Mutex::new(Vec::<u32>::new()));
    let processed2 = processed.clone();
    // `dropmid`=1: the processing of the first item blocks until the environment releases it, and the caller drops its Arc meanwhile
    let hold = BGate::new();
    let (hold2, dropmid) = (hold.clone(), cfg.opt("dropmid", 0) == 1);
    pipe_in(obj.clone(), stream, move |p: &mut Payload, item: u32| {
        let _keep = &dc;
        p.check("pipe-item");
        st2.enter("pipe-item");
        vsched::thread::yield_now();
        if dropmid && item == 1 {
            hold2.wait();
        }
        processed2.lock().unwrap().push(item);
        st2.exit();
        futures::future::ready(()).boxed()
    });
    if dropmid {
        // one item arrives and its processing blocks; the last Arc is dropped while the pipe's poll job is running
        ctl.push(1);
        rt::quiesce();
        // `inpoll`=k: when the poll job then finds the input empty, the input wakes its waker from inside poll_next (the Desync
        // has no owner left at that moment)
        ctl.set_wake_in_poll(cfg.opt("inpoll", 0) as usize);
        let opener = spawn(move || hold.open());
        let dropper = {
            let drops = w.payload_drops.clone();
            let inpoll = cfg.opt("inpoll", 0) > 0;
            spawn(move || {
                drop(obj);
                // (with a wake-up being processed at the same moment the pipe may hold a momentary upgraded reference, which then
                // is the last one: the payload is destroyed a little later, which the check at quiescence below covers)
                if !inpoll && drops.load(AO::SeqCst) != 1 {
                    rt::violation(format!("DROP-COUNT the payload was destroyed {} times when the last owner's drop returned (a pipe_in poll was running)", drops.load(AO::SeqCst)));
                }
            })
        };
        join(opener, "opener");
        join(dropper, "dropper");
        rt::quiesce();
        if processed.lock().unwrap().clone() != vec![1] {
            rt::violation(format!("PIPE-IN-ITEMS processed {:?}, expected [1]", processed.lock().unwrap()));
        }
        if w.payload_drops.load(AO::SeqCst) != 1 {
            rt::violation("PIPE-IN-STRONG the payload was not destroyed although the caller dropped the last Arc (pipe_in must only hold a weak reference)".into());
        }
        ctl.push(99);
        rt::quiesce();
        if ctl.stream_drops() != 1 || closure_drops.load(AO::SeqCst) != 1 {
            rt::violation(format!("PIPE-IN-LEAK after the Desync was dropped and the input produced an event: stream drops={} closure drops={}", ctl.stream_drops(), closure_drops.load(AO::SeqCst)));
        }
        w.check_quiet();
        check_no_unplanned_panics();
        rt::quiesce();
        shutdown();
        return;
    }
    // `pin`=1: every pool thread is pinned by a blocking job and a stale schedule entry is left in front (a queue scheduled
    // and then run by its caller) before the items arrive; the environment frees the pool threads afterwards
    let mut pins = vec![];
    if cfg.opt("pin", 0) == 1 {
        for i in 0..pool {
            let bq = w.raw();
            let bg = BGate::new();
            w.desync(&bq, &format!("pin{}", i), Body::blocking(&bg));
            pins.push((bq, bg));
        }
        rt::quiesce();
        let a = w.raw();
        w.desync(&a, "A", Body::plain());
        w.sync(&a, "SA", Body::plain());
    }
    // weak ownership: the pipe must not keep the Desync alive
    let ctl2 = ctl.clone();
    let bgs: Vec<BGate> = pins.iter().map(|p| p.1.clone()).collect();
    let producer = spawn(move || {
        feed(&ctl2, n, pat, fin == 0);
        for bg in &bgs {
            bg.open();
        }
    });
    let mut hs = vec![];
    let wobj = Obj::D(obj.clone(), st.clone());
    match conc {
        1 => {
            let (w1, o1) = (w.clone(), wobj.clone());
            hs.push(spawn(move || { w1.sync(&o1, "S", Body::plain()); }));
        }
        2 => {
            w.desync(&wobj, "D", Body::plain());
        }
        _ => {}
    }
    drop(wobj);
    for (i, h) in hs.into_iter().enumerate() {
        join(h, &format!("conc{}", i));
    }
    join(producer, "producer");
    rt::quiesce();
    if pool == 0 {
        // with no pool threads the caller carries the work
        obj.sync(|_| ());
        rt::quiesce();
    }
    let expect: Vec<u32> = (1..=n).collect();
    let got = processed.lock().unwrap().clone();
    if got != expect {
        rt::violation(format!("PIPE-IN-ITEMS processed {:?}, the stream yielded {:?}", got, expect));
    }
    if Arc::strong_count(&obj) != 1 {
        rt::violation(format!("PIPE-IN-STRONG pipe_in holds {} strong reference(s) on the Desync", Arc::strong_count(&obj) - 1));
    }
    w.check_quiet();
    if cfg.opt("late", 0) == 1 {
        ctl.spurious_wake();
        rt::quiesce();
        if ctl.polls_after_end() != 0 {
            rt::violation(format!("PIPE-IN-LEAK the input stream was polled {} time(s) after it had ended", ctl.polls_after_end()));
        }
    }
    if fin == 0 {
        // the stream ended: stream and closure are released
        if ctl.stream_drops() != 1 || closure_drops.load(AO::SeqCst) != 1 {
            rt::violation(format!("PIPE-IN-LEAK after the stream ended: stream drops={} closure drops={}", ctl.stream_drops(), closure_drops.load(AO::SeqCst)));
        }
        drop(obj);
    } else {
        // the Desync goes away with the input still open; the first stream event afterwards releases everything
        drop(obj);
        if w.payload_drops.load(AO::SeqCst) != 1 {
            rt::violation("PIPE-IN-STRONG the payload was not destroyed when the caller dropped its Arc".into());
        }
        ctl.push(99);
        rt::quiesce();
        if pool > 0 && (ctl.stream_drops() != 1 || closure_drops.load(AO::SeqCst) != 1) {
            rt::violation(format!("PIPE-IN-LEAK after the Desync was dropped and the input produced an event: stream drops={} closure drops={}", ctl.stream_drops(), closure_drops.load(AO::SeqCst)));
        }
        if processed.lock().unwrap().len() != n as usize {
            rt::violation("PIPE-IN-ITEMS an item was processed after the Desync was destroyed".into());
        }
    }
    if w.payload_drops.load(AO::SeqCst) != 1 {
        rt::violation(format!("DROP-COUNT payload dropped {} times", w.payload_drops.load(AO::SeqCst)));
    }
    check_no_unplanned_panics();
    rt::quiesce();
    shutdown();
}

/// C12: pipe with back-pressure depth `d`, `n` items arriving by pattern `pat`, the consumer is a task
/// on the main thread; then the input ends
fn pipe_out(cfg: &Cfg) {
    let pool = cfg.pool();
    setup(pool);
    let (n, d, pat) = (cfg.get("n") as u32, cfg.get("d") as usize, cfg.opt("pat", 1));
    let w = World::new();
    w.prelude(cfg);
    let (obj, st) = dobj(&w);
    let pre: Vec<u32> = if pat == 0 { (1..=n).collect() } else { vec![] };
    let (stream, ctl) = scripted_stream(&pre);
    stream_env(cfg, &ctl);
    let st2 = st.clone();
    let mut out = pipe(obj.clone(), stream, move |p: &mut Payload, item: u32| {
        p.check("pipe-item");
        st2.enter("pipe-item");
        vsched::thread::yield_now();
        st2.exit();
        futures::future::ready(item + 100).boxed()
    });
    out.set_backpressure_depth(d);
    let ctl2 = ctl.clone();
    let producer = spawn(move || feed(&ctl2, n, pat, true));
    if pat == 0 {
        ctl.end();
    }
    if cfg.opt("d2", 0) > 0 && cfg.opt("d2at", 1) == 0 {
        // `d2at`=0: the depth is changed before the first read, once the producer has taken what it can and is throttled
        rt::quiesce();
        out.set_backpressure_depth(cfg.opt("d2", 0) as usize);
    }
    let prev = rt::note("in:pipe-consumer");
    let mut got = vec![];
    loop {
        match block_on(out.next()) {
            Some(v) => got.push(v),
            None => break,
        }
        if got.len() > n as usize + 2 {
            break;
        }
        // `d2`: the consumer changes the back-pressure depth after its first read, while items may be buffered and the
        // producer may be throttled
        if got.len() == 1 && cfg.opt("d2", 0) > 0 && cfg.opt("d2at", 1) == 1 {
            out.set_backpressure_depth(cfg.opt("d2", 0) as usize);
        }
    }
    rt::note(&prev);
    let expect: Vec<u32> = (1..=n).map(|i| i + 100).collect();
    if got != expect {
        rt::violation(format!("PIPE-OUT-ITEMS consumer received {:?}, expected {:?} then end of stream", got, expect));
    }
    join(producer, "producer");
    rt::quiesce();
    drop(out);
    rt::quiesce();
    w.check_quiet();
    if ctl.stream_drops() != 1 {
        rt::violation(format!("PIPE-OUT-LEAK input stream dropped {} times after the pipe finished", ctl.stream_drops()));
    }
    if Arc::strong_count(&obj) != 1 {
        rt::violation(format!("PIPE-OUT-LEAK the finished pipe still holds {} strong reference(s) on the Desync", Arc::strong_count(&obj) - 1));
    }
    drop(obj);
    check_no_unplanned_panics();
    rt::quiesce();
    shutdown();
}

/// C12 when the producing job is not run by the pool: every pool thread is pinned, an item arrives,
/// and a task polls *another* future on the same Desync once, which makes that poll run the pipe's
/// producing job; the processing future suspends (gate), the polled future is kept but never polled
/// again.  When the pool threads become free and the gate opens, the pipe must still deliver.
fn pipe_steal(cfg: &Cfg) {
    use std::future::Future;
    let pool = cfg.pool();
    setup(pool);
    let w = World::new();
    w.prelude(cfg);
    let mut pins = vec![];
    for i in 0..pool {
        let bq = w.raw();
        let bg = BGate::new();
        w.desync(&bq, &format!("pin{}", i), Body::blocking(&bg));
        pins.push((bq, bg));
    }
    rt::quiesce();
    let (obj, st) = dobj(&w);
    let (stream, ctl) = scripted_stream(&[]);
    stream_env(cfg, &ctl);
    let g = Gate::new();
    let (st2, g2) = (st.clone(), g.clone());
    let mut out = pipe(obj.clone(), stream, move |p: &mut Payload, item: u32| {
        p.check("pipe-item");
        let (st3, g3) = (st2.clone(), g2.clone());
        async move {
            st3.enter("pipe-item");
            g3.await;
            vsched::thread::yield_now();
            st3.exit();
            item + 100
        }
        .boxed()
    });
    ctl.push(1);
    let wobj = Obj::D(obj.clone(), st.clone());
    let mut h = w.future_desync(&wobj, "EXTRA-FD", Body::plain());
    let mut f = Box::pin(h.fut.take().unwrap());
    let (wk, _c) = counting_waker();
    let mut cx = futures::task::Context::from_waker(&wk);
    let first = f.as_mut().poll(&mut cx);
    // the environment: pool threads become free, the awaited event happens, the input ends
    let (g4, ctl2) = (g.clone(), ctl.clone());
    let bgs: Vec<BGate> = pins.iter().map(|p| p.1.clone()).collect();
    let env = spawn(move || {
        for bg in &bgs {
            bg.open();
        }
        g4.open();
        ctl2.end();
    });
    let prev = rt::note("in:pipe-consumer");
    let mut got = vec![];
    while let Some(v) = block_on(out.next()) {
        got.push(v);
        if got.len() > 3 {
            break;
        }
    }
    rt::note(&prev);
    if got != vec![101] {
        rt::violation(format!("PIPE-OUT-ITEMS consumer received {:?}, expected [101] then end of stream", got));
    }
    join(env, "env");
    let r = match first {
        futures::task::Poll::Ready(r) => r,
        _ => block_on(f),
    };
    if r != Ok(h.token) {
        rt::violation("FUTURE-RESULT EXTRA-FD resolved to the wrong value".into());
    }
    drop(wobj);
    rt::quiesce();
    drop(out);
    rt::quiesce();
    w.check_quiet();
    drop(obj);
    check_no_unplanned_panics();
    rt::quiesce();
    shutdown();
}

/// C12 "consumers always wake": the consumer polls the empty output stream with one waker, then again
/// with another (the stream handed to another task, or a combinator using a fresh waker per poll); the
/// next output (`what`=0) or the end of the stream (`what`=1) must wake the most recent one.
fn pipe_rewake(cfg: &Cfg) {
    use futures::Stream;
    let pool = cfg.pool();
    setup(pool);
    let what = cfg.opt("what", 0);
    let w = World::new();
    w.prelude(cfg);
    let (obj, st) = dobj(&w);
    let (stream, ctl) = scripted_stream(&[]);
    stream_env(cfg, &ctl);
    let st2 = st.clone();
    let mut out = pipe(obj.clone(), stream, move |p: &mut Payload, item: u32| {
        p.check("pipe-item");
        st2.enter("pipe-item");
        vsched::thread::yield_now();
        st2.exit();
        futures::future::ready(item + 100).boxed()
    });
    let (wa, ca) = counting_waker();
    let (wb, cb) = counting_waker();
    let mut first = None;
    {
        let mut cx = futures::task::Context::from_waker(&wa);
        if let futures::task::Poll::Ready(v) = std::pin::Pin::new(&mut out).poll_next(&mut cx) {
            first = Some(v);
        }
    }
    vsched::thread::yield_now();
    if first.is_none() {
        let mut cx = futures::task::Context::from_waker(&wb);
        if let futures::task::Poll::Ready(v) = std::pin::Pin::new(&mut out).poll_next(&mut cx) {
            first = Some(v);
        }
    }
    let ctl2 = ctl.clone();
    let producer = spawn(move || {
        if what == 0 {
            ctl2.push(1);
        }
        ctl2.end();
    });
    join(producer, "producer");
    rt::quiesce();
    if first.is_none() && cb.load(AO::SeqCst) == 0 {
        rt::violation(format!("PIPE-OUT-WAKE the consumer's most recent waker was never woken although the pipe produced {} (earlier waker woken {} times)", if what == 0 { "an output" } else { "the end of the stream" }, ca.load(AO::SeqCst)));
    }
    let mut got = vec![];
    if let Some(Some(v)) = first {
        got.push(v);
    }
    if first != Some(None) {
        while let Some(v) = block_on(out.next()) {
            got.push(v);
            if got.len() > 3 {
                break;
            }
        }
    }
    let expect: Vec<u32> = if what == 0 { vec![101] } else { vec![] };
    if got != expect {
        rt::violation(format!("PIPE-OUT-ITEMS consumer received {:?}, expected {:?} then end of stream", got, expect));
    }
    drop(out);
    rt::quiesce();
    w.check_quiet();
    drop(obj);
    check_no_unplanned_panics();
    rt::quiesce();
    shutdown();
}

/// C12 "a producer throttled by back-pressure always resumes after the consumer reads": buffer depth `d`, `d`+2 items arrive one
/// by one (the producer ends up throttled with items left in the input), the consumer reads `r` outputs and then just waits: the
/// producer must go on and process the next input item.  Afterwards the consumer drains the rest.
fn pipe_partial(cfg: &Cfg) {
    let pool = cfg.pool();
    setup(pool);
    let (d, r) = (cfg.get("d") as u32, cfg.opt("r", 1) as usize);
    let w = World::new();
    w.prelude(cfg);
    let (obj, st) = dobj(&w);
    let (stream, ctl) = scripted_stream(&[]);
    stream_env(cfg, &ctl);
    let st2 = st.clone();
    let processed = Arc::new(AtomicUsize::new(0));
    let processed2 = processed.clone();
    let mut out = pipe(obj.clone(), stream, move |p: &mut Payload, item: u32| {
        p.check("pipe-item");
        st2.enter("pipe-item");
        vsched::thread::yield_now();
        processed2.fetch_add(1, AO::SeqCst);
        st2.exit();
        futures::future::ready(item + 100).boxed()
    });
    out.set_backpressure_depth(d as usize);
    let n = d + 2;
    let ctl2 = ctl.clone();
    let producer = spawn(move || {
        for i in 0..n {
            ctl2.push(i + 1);
        }
    });
    join(producer, "producer");
    rt::quiesce();
    let before = processed.load(AO::SeqCst);
    let prev = rt::note("in:pipe-consumer");
    let mut got = vec![];
    for _ in 0..r {
        if let Some(v) = block_on(out.next()) {
            got.push(v);
        }
    }
    rt::note(&prev);
    // the consumer now waits without polling: the producer, if it was throttled, must have been released by the read(s)
    rt::quiesce();
    let after = processed.load(AO::SeqCst);
    let _ = before;
    // the buffer holds (processed - read) items: while that is below the depth and input is waiting, the producer has to go on
    if after < n as usize && after - got.len() < d as usize {
        rt::violation(format!("PIPE-OUT-WAKE the producer stayed throttled after the consumer read {} output(s): {} of {} inputs processed, {} buffered (buffer depth {})", got.len(), after, n, after - got.len(), d));
    }
    ctl.end();
    let prev = rt::note("in:pipe-consumer");
    while let Some(v) = block_on(out.next()) {
        got.push(v);
        if got.len() > n as usize + 2 {
            break;
        }
    }
    rt::note(&prev);
    let expect: Vec<u32> = (1..=n).map(|i| i + 100).collect();
    if got != expect {
        rt::violation(format!("PIPE-OUT-ITEMS consumer received {:?}, expected {:?} then end of stream", got, expect));
    }
    drop(out);
    rt::quiesce();
    w.check_quiet();
    drop(obj);
    check_no_unplanned_panics();
    rt::quiesce();
    shutdown();
}

/// C12 (+C03): no pool thread; a pipe feeds a Desync that is also used through future_sync.  The task that awaits the
/// future_sync runs the queue itself, which makes it the pipe's producer; the processing future yields cooperatively (wakes
/// itself and returns Pending) `y` times per item.  Every output and the end of the stream must reach the consumer.
fn pipe_fs(cfg: &Cfg) {
    setup(0);
    let (n, y) = (cfg.get("n") as u32, cfg.opt("y", 1));
    let w = World::new();
    w.prelude(cfg);
    let (obj, st) = dobj(&w);
    let (stream, ctl) = scripted_stream(&[]);
    stream_env(cfg, &ctl);
    let st2 = st.clone();
    let mut out = pipe(obj.clone(), stream, move |p: &mut Payload, item: u32| {
        p.check("pipe-item");
        let st3 = st2.clone();
        async move {
            st3.enter("pipe-item");
            for _ in 0..y {
                YieldOnce(false).await;
            }
            st3.exit();
            item + 100
        }
        .boxed()
    });
    // (the pipe's first poll ran inside pipe() and found the input empty; the items arrive now: a poll job is queued and nobody
    // runs it until the task below awaits its future_sync)
    for i in 1..=n {
        ctl.push(i);
    }
    ctl.end();
    let wobj = Obj::D(obj.clone(), st.clone());
    w.future_sync(&wobj, "FS", Body::plain()).wait();
    let prev = rt::note("in:pipe-consumer");
    let mut got = vec![];
    while let Some(v) = block_on(out.next()) {
        got.push(v);
        if got.len() > n as usize + 2 {
            break;
        }
    }
    rt::note(&prev);
    let expect: Vec<u32> = (1..=n).map(|i| i + 100).collect();
    if got != expect {
        rt::violation(format!("PIPE-OUT-ITEMS consumer received {:?}, expected {:?} then end of stream", got, expect));
    }
    drop(out);
    rt::quiesce();
    for round in 0..2 {
        w.sync(&wobj, &format!("kick{}", round), Body::plain());
    }
    w.check_quiet();
    drop(wobj);
    drop(obj);
    check_no_unplanned_panics();
    rt::quiesce();
    shutdown();
}
