//! `vcheck check <Cxx> --tier quick|thorough`: runs the property's plan, attributes violations,
//! confirms them by double replay, writes replay files and the evidence file.
use crate::explore::*;
use crate::json::{self, J};
use crate::props::{self, Item};
use std::collections::{BTreeMap, BTreeSet};
use std::sync::{Arc, Mutex};
use std::time::{Duration, Instant};

pub const VERIF_DIR: &str = "/verif";

#[derive(Clone)]
struct ItemResult {
    item: Item,
    bound_target: usize,
    bound_completed: Option<usize>,
    execs_by_bound: Vec<u64>,
    stats: Stats,
    try_sites: Vec<(String, u32)>,
    vios: Vec<Vio>,
    nondet: Vec<String>,
    crashed: Vec<Crash>,
    skipped: bool,
}

struct Known {
    id: String,
    property: String,
    status: String,
    all_of: Vec<String>,
    what: String,
}

fn load_known() -> Vec<Known> {
    let path = format!("{}/known_findings.json", VERIF_DIR);
    let text = match std::fs::read_to_string(&path) {
        Ok(t) => t,
        Err(_) => return vec![],
    };
    let j = match json::parse(&text) {
        Ok(j) => j,
        Err(e) => {
            eprintln!("MACHINERY: cannot parse {}: {}", path, e);
            std::process::exit(2);
        }
    };
    let mut v = vec![];
    for f in j.get("findings").map(|f| f.arr()).unwrap_or(&[]) {
        v.push(Known {
            id: f.get("id").and_then(|x| x.str()).unwrap_or("").to_string(),
            property: f.get("property").and_then(|x| x.str()).unwrap_or("").to_string(),
            status: f.get("status").and_then(|x| x.str()).unwrap_or("").to_string(),
            all_of: f.get("match_all_of").map(|a| a.arr().iter().filter_map(|x| x.str().map(|s| s.to_string())).collect()).unwrap_or_default(),
            what: f.get("what").and_then(|x| x.str()).unwrap_or("").to_string(),
        });
    }
    v
}

/// does property `q`'s plan (same tier) explore this scenario instance?
fn covered_by(q: &str, scenario: &str, cfg: &crate::h::Cfg, quick: bool) -> bool {
    use std::sync::OnceLock;
    static CACHE: OnceLock<Mutex<BTreeMap<(String, bool), BTreeSet<(String, String)>>>> = OnceLock::new();
    let cache = CACHE.get_or_init(|| Mutex::new(BTreeMap::new()));
    let mut g = cache.lock().unwrap();
    let set = g.entry((q.to_string(), quick)).or_insert_with(|| props::plan(q).into_iter().filter(|i| !quick || i.quick.is_some()).map(|i| (i.scenario.to_string(), i.cfg.to_string())).collect());
    set.contains(&(scenario.to_string(), cfg.to_string()))
}

fn run_item(exe: &str, item: &Item, bound: usize, workers: usize, seed: u64, deadline: Instant) -> ItemResult {
    run_item_from(exe, item, bound, workers, seed, deadline, None)
}

/// `only`: run just that bound (used to deepen an instance whose lower bounds were completed before)
fn run_item_from(exe: &str, item: &Item, bound: usize, workers: usize, seed: u64, deadline: Instant, only: Option<usize>) -> ItemResult {
    let mut res = ItemResult { item: item.clone(), bound_target: bound, bound_completed: None, execs_by_bound: vec![], stats: Stats::default(), try_sites: vec![], vios: vec![], nondet: vec![], crashed: vec![], skipped: false };
    let mut sites: Vec<(String, u32)> = vec![];
    // bounds are iterated so that the first counter-example has the fewest preemptions; the cheap
    // bounds below target-1 are skipped when the target is high (each bound re-covers the lower ones)
    let start = match only {
        Some(b) => b,
        None => {
            if bound >= 2 {
                bound - 1
            } else {
                0
            }
        }
    };
    for b in start..=bound {
        if Instant::now() > deadline {
            res.stats.cap_hit = Some("wall-clock cap of the check".into());
            break;
        }
        let spec = WorkerSpec { scenario: item.scenario.to_string(), cfg: item.cfg.clone(), bound: b, elide: true, try_sites: sites.clone(), seed, fresh: false };
        let r = explore(exe, &spec, &Limits { workers, deadline: Some(deadline), stop_on_violation: true });
        sites = r.try_sites.clone();
        res.try_sites = sites.clone();
        res.execs_by_bound.push(r.stats.execs);
        let complete = r.stats.complete;
        // aggregate
        res.stats.execs += r.stats.execs;
        res.stats.steps += r.stats.steps;
        res.stats.nodes += r.stats.nodes;
        res.stats.maxlen = res.stats.maxlen.max(r.stats.maxlen);
        res.stats.nontrivial += r.stats.nontrivial;
        res.stats.audits += r.stats.audits;
        res.stats.inconclusive += r.stats.inconclusive;
        res.stats.max_threads = res.stats.max_threads.max(r.stats.max_threads);
        res.stats.restarts += r.stats.restarts;
        res.stats.wall_s += r.stats.wall_s;
        for (k, v) in &r.stats.outcomes {
            *res.stats.outcomes.entry(k.clone()).or_default() += v;
        }
        for w in &r.stats.witnesses {
            res.stats.witnesses.insert(w.clone());
        }
        for s in &r.stats.samples {
            if res.stats.samples.len() < 3 {
                res.stats.samples.push(s.clone());
            }
        }
        if r.stats.cap_hit.is_some() {
            res.stats.cap_hit = r.stats.cap_hit.clone();
        }
        res.nondet.extend(r.nondet);
        res.crashed.extend(r.crashed);
        if !r.vios.is_empty() {
            res.vios = r.vios;
            res.stats.violations += r.stats.violations;
            break;
        }
        if !res.nondet.is_empty() || !res.crashed.is_empty() {
            break;
        }
        if complete {
            res.bound_completed = Some(b);
        } else {
            break;
        }
    }
    res
}

fn write_replay(prop: &str, r: &ItemResult, v: &Vio, owned: &[String], steps: &[String]) -> String {
    let dir = format!("{}/replays", VERIF_DIR);
    let _ = std::fs::create_dir_all(&dir);
    let mut h = 0xcbf29ce484222325u64;
    for b in &v.schedule {
        h ^= *b as u64;
        h = h.wrapping_mul(0x100000001b3);
    }
    let path = format!("{}/{}-{}-{:08x}.json", dir, prop, r.item.scenario, h as u32);
    let j = json::obj(vec![
        ("property", json::s(prop)),
        ("scenario", json::s(r.item.scenario)),
        ("cfg", json::s(&r.item.cfg.to_string())),
        ("elide_unlock", J::Bool(true)),
        ("try_sites", json::s(&sites_string(&r.try_sites))),
        ("schedule", json::s(&hex(&v.schedule))),
        ("preemptions_bound", json::n(r.bound_target as f64)),
        ("failure", json::s(&v.text)),
        ("attributed_to_property", J::Arr(owned.iter().map(|s| json::s(s)).collect())),
        ("trace", J::Arr(steps.iter().map(|s| json::s(s)).collect())),
        ("how_to_replay", json::s(&format!("cd /verif && ./check --replay {}", path))),
    ]);
    std::fs::write(&path, json::to_string(&j)).expect("write replay file");
    path
}

fn replay_steps(exe: &str, spec: &WorkerSpec, schedule: &[u8]) -> Vec<String> {
    let cfgs = spec.cfg.to_string();
    let out = std::process::Command::new(exe)
        .arg("replay1")
        .arg(&spec.scenario)
        .arg(if cfgs.is_empty() { "-".to_string() } else { cfgs })
        .arg("1")
        .arg(sites_string(&spec.try_sites))
        .arg(hex(schedule))
        .output();
    match out {
        Ok(o) => String::from_utf8_lossy(&o.stdout).lines().filter(|l| l.starts_with("STEP ") || l.starts_with("PANIC ")).map(|l| l.to_string()).collect(),
        Err(_) => vec![],
    }
}

pub fn check_main(args: &[String], exe_normal: &str) -> i32 {
    let prop = args[0].clone();
    let mut tier = std::env::var("VERIF_TIER").unwrap_or_else(|_| "quick".into());
    let mut i = 1;
    while i < args.len() {
        if args[i] == "--tier" && i + 1 < args.len() {
            tier = args[i + 1].clone();
            i += 1;
        }
        i += 1;
    }
    let quick = tier != "thorough";
    let seed: u64 = std::env::var("VERIF_SEED").ok().and_then(|s| s.parse().ok()).unwrap_or(0);
    let t0 = Instant::now();
    let cap = if quick {
        Duration::from_secs(std::env::var("VCHECK_QUICK_CAP_S").ok().and_then(|s| s.parse().ok()).unwrap_or(300))
    } else {
        Duration::from_secs(std::env::var("VCHECK_THOROUGH_CAP_S").ok().and_then(|s| s.parse().ok()).unwrap_or(2400))
    };
    let deadline = t0 + cap;
    // C14 explores in the AddressSanitizer build of the same engine
    let exe = if prop == "C14" { std::env::var("VCHECK_ASAN_EXE").unwrap_or_else(|_| format!("{}/engine/target-asan/x86_64-unknown-linux-gnu/release/vcheck", VERIF_DIR)) } else { exe_normal.to_string() };
    if prop == "C14" {
        if !std::path::Path::new(&exe).exists() {
            eprintln!("MACHINERY: sanitizer build {} missing (run ./check C14, which builds it)", exe);
            return 2;
        }
        std::env::set_var("VCHECK_TRACK_CUR", "1");
        std::env::set_var("ASAN_OPTIONS", "detect_leaks=0:abort_on_error=0:exitcode=99:handle_segv=1");
    }
    // workers and replays run from a private copy of the binary, so that a rebuild started by somebody else while this check is
    // running cannot swap the subject underneath it
    let private_dir = format!("{}/engine/target/run-{}", VERIF_DIR, std::process::id());
    let exe = {
        let _ = std::fs::create_dir_all(&private_dir);
        let dst = format!("{}/vcheck", private_dir);
        match std::fs::copy(&exe, &dst) {
            Ok(_) => dst,
            Err(_) => exe,
        }
    };
    struct Cleanup(String);
    impl Drop for Cleanup {
        fn drop(&mut self) {
            let _ = std::fs::remove_dir_all(&self.0);
        }
    }
    let _cleanup = Cleanup(private_dir.clone());
    let known = load_known();
    let plan: Vec<(Item, usize)> = props::plan(&prop).into_iter().filter_map(|it| { let b = if quick { it.quick } else { Some(it.thorough) }; b.map(|b| (it, b)) }).collect();
    if plan.is_empty() {
        eprintln!("MACHINERY: no plan for property {}", prop);
        return 2;
    }
    let nworkers = n_workers();
    let results: Arc<Mutex<Vec<ItemResult>>> = Arc::new(Mutex::new(vec![]));
    let stop = Arc::new(std::sync::atomic::AtomicBool::new(false));
    let has_owned_violation = {
        let prop = prop.clone();
        move |r: &ItemResult| -> bool {
            !r.crashed.is_empty()
                || r.vios.iter().any(|v| {
                    v.text.split(" || ").any(|p| {
                        let os = props::owners(r.item.scenario, p);
                        os.contains(&prop.as_str()) || props::class_of(p) == "NONDETERMINISM" || !os.iter().any(|q| covered_by(q, r.item.scenario, &r.item.cfg, quick))
                    })
                })
        }
    };
    // large instances one after the other with all workers
    for (item, b) in plan.iter().filter(|(it, _)| !it.small) {
        if stop.load(std::sync::atomic::Ordering::SeqCst) {
            break;
        }
        let r = if Instant::now() > deadline {
            let mut r = ItemResult { item: item.clone(), bound_target: *b, bound_completed: None, execs_by_bound: vec![], stats: Stats::default(), try_sites: vec![], vios: vec![], nondet: vec![], crashed: vec![], skipped: true };
            r.stats.cap_hit = Some("wall-clock cap of the check".into());
            r
        } else {
            run_item(&exe, item, *b, nworkers, seed, deadline)
        };
        if has_owned_violation(&r) || !r.nondet.is_empty() {
            stop.store(true, std::sync::atomic::Ordering::SeqCst);
        }
        results.lock().unwrap().push(r);
    }
    // small instances: several at a time, few workers each
    let smalls: Vec<(Item, usize)> = plan.iter().filter(|(it, _)| it.small).cloned().collect();
    if !smalls.is_empty() && !stop.load(std::sync::atomic::Ordering::SeqCst) {
        let queue = Arc::new(Mutex::new(smalls.into_iter().collect::<std::collections::VecDeque<_>>()));
        let lanes = (nworkers / 2).max(1);
        let mut hs = vec![];
        for _ in 0..lanes {
            let (queue, results, stop, exe, has_owned_violation) = (queue.clone(), results.clone(), stop.clone(), exe.clone(), has_owned_violation.clone());
            hs.push(std::thread::spawn(move || loop {
                let next = queue.lock().unwrap().pop_front();
                let (item, b) = match next {
                    Some(x) => x,
                    None => break,
                };
                let r = if stop.load(std::sync::atomic::Ordering::SeqCst) || Instant::now() > deadline {
                    let mut r = ItemResult { item: item.clone(), bound_target: b, bound_completed: None, execs_by_bound: vec![], stats: Stats::default(), try_sites: vec![], vios: vec![], nondet: vec![], crashed: vec![], skipped: true };
                    if !stop.load(std::sync::atomic::Ordering::SeqCst) {
                        r.stats.cap_hit = Some("wall-clock cap of the check".into());
                    }
                    r
                } else {
                    run_item(&exe, &item, b, 2, seed, deadline)
                };
                if has_owned_violation(&r) || !r.nondet.is_empty() {
                    stop.store(true, std::sync::atomic::Ordering::SeqCst);
                }
                results.lock().unwrap().push(r);
            }));
        }
        for h in hs {
            h.join().unwrap();
        }
    }
    let mut results = results.lock().unwrap().clone();

    // ---- thorough tier: spend what is left of the target time on one more preemption for the targeted instances, cheapest first
    if !quick && !stop.load(std::sync::atomic::Ordering::SeqCst) {
        let target = Duration::from_secs(std::env::var("VCHECK_THOROUGH_TARGET_S").ok().and_then(|s| s.parse().ok()).unwrap_or(900));
        let soft_deadline = t0 + target;
        let total: u64 = results.iter().map(|r| r.stats.execs).sum();
        let rate = (total as f64 / t0.elapsed().as_secs_f64().max(1.0)).max(1000.0);
        let mut cands: Vec<(u64, usize)> = results
            .iter()
            .enumerate()
            .filter(|(_, r)| !r.item.small && !r.skipped && r.bound_completed == Some(r.bound_target) && r.vios.is_empty())
            .map(|(i, r)| (*r.execs_by_bound.last().unwrap_or(&0), i))
            .collect();
        cands.sort();
        for (last, i) in cands {
            let now = Instant::now();
            if now > soft_deadline || now > deadline {
                break;
            }
            // one more preemption costs roughly 15-25 times the previous bound
            let est_s = (last as f64 * 20.0) / rate;
            if est_s > (soft_deadline - now).as_secs_f64() {
                continue;
            }
            let (item, b) = (results[i].item.clone(), results[i].bound_target + 1);
            let mut r = run_item_from(&exe, &item, b, nworkers, seed, deadline.min(soft_deadline + Duration::from_secs(120)), Some(b));
            r.item.cfg.0.push(("extra_depth".to_string(), 1));
            let bad = has_owned_violation(&r) || !r.nondet.is_empty();
            // an extra-depth pass that ran out of time is simply not counted as completed
            results.push(r);
            if bad {
                break;
            }
        }
    }

    // ---- verdicts ---------------------------------------------------------------------------
    let mut machinery_errors: Vec<String> = vec![];
    let mut violations_reported = 0usize;
    let mut known_hits: BTreeSet<String> = BTreeSet::new();
    let mut notes: BTreeMap<String, u64> = BTreeMap::new();
    let mut replay_paths = vec![];
    for r in &results {
        for n in &r.nondet {
            machinery_errors.push(format!("NONDETERMINISM in {} [{}]: {}", r.item.scenario, r.item.cfg.to_string(), n));
        }
        let mut crash_reported = false;
        for c in &r.crashed {
            // the worker process died while running the subject: a verdict only if the death is reproduced, twice, by replaying the
            // announced prefix in fresh processes (then it is a crash of the subject under that schedule: memory error / abort)
            let spec = WorkerSpec { scenario: r.item.scenario.to_string(), cfg: r.item.cfg.clone(), bound: r.bound_target, elide: true, try_sites: r.try_sites.clone(), seed, fresh: false };
            let confirmed = match &c.prefix {
                Some(p) => match (replay_dies(&exe, &spec, p), replay_dies(&exe, &spec, p)) {
                    (Some(a), Some(_)) => Some(a),
                    _ => None,
                },
                None => None,
            };
            match confirmed {
                Some(report) => {
                    if crash_reported {
                        continue;
                    }
                    crash_reported = true;
                    let _ = std::fs::create_dir_all(format!("{}/replays", VERIF_DIR));
                    let v = Vio { schedule: c.prefix.clone().unwrap(), text: format!("CRASH the process died while executing the subject under this schedule (memory error or abort): {}", report.lines().take(3).collect::<Vec<_>>().join(" / ")) };
                    let steps: Vec<String> = report.lines().map(|l| l.to_string()).collect();
                    let path = write_replay(&prop, r, &v, &[v.text.clone()], &steps);
                    println!("VIOLATION property={} replay={}", prop, path);
                    println!("  scenario {} [{}]: {}", r.item.scenario, r.item.cfg.to_string(), v.text.chars().take(300).collect::<String>());
                    violations_reported += 1;
                }
                None => machinery_errors.push(format!("worker crash in {} [{}] not reproduced by replay: {}", r.item.scenario, r.item.cfg.to_string(), c.desc)),
            }
        }
        let mut reported_here = 0;
        for v in &r.vios {
            let parts: Vec<&str> = v.text.split(" || ").collect();
            if parts.iter().any(|p| props::class_of(p) == "NONDETERMINISM") {
                machinery_errors.push(format!("NONDETERMINISM while replaying a prefix in {} [{}]: {}", r.item.scenario, r.item.cfg.to_string(), v.text));
                continue;
            }
            let owned: Vec<String> = parts
                .iter()
                .filter(|p| {
                    let os = props::owners(r.item.scenario, p);
                    // own class, or a class whose owners do not explore this scenario instance themselves (nothing is dropped silently)
                    os.contains(&prop.as_str()) || !os.iter().any(|q| covered_by(q, r.item.scenario, &r.item.cfg, quick))
                })
                .map(|s| s.to_string())
                .collect();
            if owned.is_empty() {
                for p in &parts {
                    *notes.entry(format!("{} in {} (attributed to {:?})", props::class_of(p), r.item.scenario, props::owners(r.item.scenario, p))).or_default() += 1;
                }
                continue;
            }
            // known finding?
            let mut is_known = false;
            for k in &known {
                if k.status == "known" && k.property == prop && !k.all_of.is_empty() && k.all_of.iter().all(|needle| v.text.contains(needle.as_str())) {
                    is_known = true;
                    if known_hits.insert(k.id.clone()) {
                        println!("KNOWN-FINDING: property={} {} ({})", prop, k.what, k.id);
                    }
                }
            }
            if is_known || reported_here >= 1 {
                continue;
            }
            // confirm by replaying twice in fresh processes
            let spec = WorkerSpec { scenario: r.item.scenario.to_string(), cfg: r.item.cfg.clone(), bound: r.bound_target, elide: true, try_sites: r.try_sites.clone(), seed, fresh: false };
            let a = replay_in_subprocess(&exe, &spec, &v.schedule);
            let b = replay_in_subprocess(&exe, &spec, &v.schedule);
            match (a, b) {
                (Some((h1, Some(f1))), Some((h2, Some(f2)))) if h1 == h2 && f1 == f2 && owned.iter().all(|o| f1.contains(props::class_of(o))) => {
                    let steps = replay_steps(&exe, &spec, &v.schedule);
                    let path = write_replay(&prop, r, v, &owned, &steps);
                    println!("VIOLATION property={} replay={}", prop, path);
                    println!("  scenario {} [{}] schedule with <= {} preemptions: {}", r.item.scenario, r.item.cfg.to_string(), r.bound_target, owned.join(" || "));
                    replay_paths.push(path);
                    violations_reported += 1;
                    reported_here += 1;
                }
                other => {
                    machinery_errors.push(format!("violation in {} [{}] did not reproduce identically on replay ({:?}): {}", r.item.scenario, r.item.cfg.to_string(), other.0.map(|x| x.0), v.text));
                }
            }
        }
    }

    // ---- evidence ---------------------------------------------------------------------------
    let wall = t0.elapsed().as_secs_f64();
    let total_execs: u64 = results.iter().map(|r| r.stats.execs).sum();
    let total_nodes: u64 = results.iter().map(|r| r.stats.nodes).sum();
    let total_steps: u64 = results.iter().map(|r| r.stats.steps).sum();
    let total_nontrivial: u64 = results.iter().map(|r| r.stats.nontrivial).sum();
    let total_audits: u64 = results.iter().map(|r| r.stats.audits).sum();
    // (extra-depth passes are a bonus: one that ran out of time does not make the planned exploration incomplete)
    let is_extra = |r: &ItemResult| r.item.cfg.0.iter().any(|e| e.0 == "extra_depth");
    let all_complete = results.iter().all(|r| is_extra(r) || (!r.skipped && r.bound_completed == Some(r.bound_target)));
    let mut witnesses: BTreeSet<String> = BTreeSet::new();
    let mut distinct_outcomes = 0usize;
    let mut samples = vec![];
    let mut per_item = vec![];
    let mut incomplete = vec![];
    for r in &results {
        for w in &r.stats.witnesses {
            witnesses.insert(w.clone());
        }
        distinct_outcomes += r.stats.outcomes.len();
        if samples.len() < 6 {
            if let Some(s) = r.stats.samples.iter().max_by_key(|s| s.0) {
                samples.push(json::obj(vec![
                    ("scenario", json::s(r.item.scenario)),
                    ("cfg", json::s(&r.item.cfg.to_string())),
                    ("schedule_thread_ids", json::s(&s.1)),
                    ("preemptions", json::n(s.0 as f64)),
                    ("observed_outcome", json::s(&s.2)),
                ]));
            }
        }
        if (r.skipped || r.bound_completed != Some(r.bound_target)) && !is_extra(r) {
            incomplete.push(format!("{}[{}] target PB={} completed {:?}{}", r.item.scenario, r.item.cfg.to_string(), r.bound_target, r.bound_completed, r.stats.cap_hit.as_ref().map(|c| format!(" ({})", c)).unwrap_or_default()));
        }
        if per_item.len() < 400 {
            per_item.push(json::obj(vec![
                ("scenario", json::s(r.item.scenario)),
                ("cfg", json::s(&r.item.cfg.to_string())),
                ("preemption_bound_target", json::n(r.bound_target as f64)),
                ("preemption_bound_completed", r.bound_completed.map(|b| json::n(b as f64)).unwrap_or(J::Null)),
                ("executions_by_bound", J::Arr(r.execs_by_bound.iter().map(|e| json::n(*e as f64)).collect())),
                ("max_schedule_length", json::n(r.stats.maxlen as f64)),
                ("threads", json::n(r.stats.max_threads as f64)),
                ("distinct_outcomes", json::n(r.stats.outcomes.len() as f64)),
                ("inconclusive_step_cap", json::n(r.stats.inconclusive as f64)),
            ]));
        }
    }
    if samples.is_empty() {
        samples.push(json::s("no passing execution was sampled in this run"));
    }
    let evidence = json::obj(vec![
        ("property_id", json::s(&prop)),
        ("tier", json::s(if quick { "quick" } else { "thorough" })),
        ("seed", json::n(seed as f64)),
        ("level", json::s("model_checking")),
        ("wall_s", json::n((wall * 100.0).round() / 100.0)),
        ("violations", json::n(violations_reported as f64)),
        (
            "coverage",
            json::obj(vec![
                ("states", json::n(total_nodes as f64)),
                ("transitions", json::n(total_steps as f64)),
                ("traces_validated_against_impl", json::n(total_execs as f64)),
                ("evaluations", json::n(total_execs as f64)),
                ("distinct_nontrivial", json::n(total_nontrivial as f64)),
                ("rule", json::s("stateless preemption-bounded DFS over the real desync code under the vsched controlled runtime: every schedule with at most the stated number of preemptions (all non-preempting choices free) of each listed scenario instance is executed once; states = decision-tree nodes visited, transitions = scheduling steps executed, every trace is an execution of the implementation itself; distinct_nontrivial counts executions whose schedule departs from the default non-preempting schedule at a point with >= 2 enabled threads (schedules are distinct by construction of the DFS)")),
                ("exhaustive", J::Bool(all_complete && violations_reported == 0)),
                ("scenario_instances", json::n(results.len() as f64)),
                ("incomplete_instances", J::Arr(incomplete.iter().map(|s| json::s(s)).collect())),
                ("distinct_observed_outcomes", json::n(distinct_outcomes as f64)),
                ("vacuity_witnesses", J::Arr(witnesses.iter().map(|s| json::s(s)).collect())),
                ("determinism_audits_passed", json::n(total_audits as f64)),
                ("known_findings_hit", J::Arr(known_hits.iter().map(|s| json::s(s)).collect())),
                ("other_property_failures_seen", J::Arr(notes.iter().map(|(k, v)| json::s(&format!("{} x {}", v, k))).collect())),
                ("samples", J::Arr(samples)),
                ("instances", J::Arr(per_item)),
            ]),
        ),
        (
            "assumptions",
            J::Arr(
                vec![
                    "sequential consistency; code between two intercepted synchronisation operations runs atomically (data-race freedom is what C01/C14 check with in-body yield points and the sanitizer build)",
                    "unlock is not a scheduling point for mutexes that are never try_lock'ed (DESIGN 2.4); the set of try_lock creation sites is learned and the exploration restarted when it grows",
                    "no spurious condvar/park wake-ups, no timeouts",
                    "bounds: see per-instance preemption bounds; <= 3 caller threads, <= 3 objects, pool <= 3",
                    "the vsched runtime and the harness are trusted (determinism audited by replay on every run)",
                ]
                .into_iter()
                .map(json::s)
                .collect(),
            ),
        ),
    ]);
    // (VCHECK_EVIDENCE_DIR redirects the file for exploratory background runs; the registered commands never set it)
    let evdir = std::env::var("VCHECK_EVIDENCE_DIR").unwrap_or_else(|_| format!("{}/evidence", VERIF_DIR));
    let _ = std::fs::create_dir_all(&evdir);
    std::fs::write(format!("{}/{}.json", evdir, prop), json::to_string(&evidence)).expect("write evidence");

    println!(
        "{} {}: instances={} executions={} states={} transitions={} outcomes={} exhaustive={} wall={:.1}s violations={}",
        prop,
        if quick { "quick" } else { "thorough" },
        results.len(),
        total_execs,
        total_nodes,
        total_steps,
        distinct_outcomes,
        all_complete,
        wall,
        violations_reported
    );
    for s in &incomplete {
        println!("  incomplete: {}", s);
    }
    for (k, v) in &notes {
        println!("  note: {} x {}", v, k);
    }
    if !machinery_errors.is_empty() {
        for m in &machinery_errors {
            eprintln!("MACHINERY: {}", m);
        }
        return 2;
    }
    if violations_reported > 0 {
        return 1;
    }
    0
}

/// `vcheck replay <file>`: re-executes the recorded schedule on the real code and prints the trace
pub fn replay_main(path: &str, exe_normal: &str) -> i32 {
    let text = match std::fs::read_to_string(path) {
        Ok(t) => t,
        Err(e) => {
            eprintln!("cannot read {}: {}", path, e);
            return 2;
        }
    };
    let j = match json::parse(&text) {
        Ok(j) => j,
        Err(e) => {
            eprintln!("cannot parse {}: {}", path, e);
            return 2;
        }
    };
    let g = |k: &str| j.get(k).and_then(|x| x.str()).unwrap_or("").to_string();
    let prop = g("property");
    let exe = if prop == "C14" { format!("{}/engine/target-asan/x86_64-unknown-linux-gnu/release/vcheck", VERIF_DIR) } else { exe_normal.to_string() };
    let cfg = g("cfg");
    let out = std::process::Command::new(&exe)
        .arg("replay1")
        .arg(g("scenario"))
        .arg(if cfg.is_empty() { "-".to_string() } else { cfg })
        .arg("1")
        .arg(g("try_sites"))
        .arg(g("schedule"))
        .output()
        .expect("run replay");
    let s = String::from_utf8_lossy(&out.stdout);
    let mut failed = None;
    for l in s.lines() {
        if let Some(f) = l.strip_prefix("FAIL ") {
            failed = Some(unesc(f));
        } else if let Some(st) = l.strip_prefix("STEP ") {
            println!("{}", st);
        } else if l.starts_with("PANIC ") {
            println!("{}", l);
        }
    }
    match failed {
        Some(f) if f.starts_with("NONDETERMINISM") => {
            // the code under test has changed since the schedule was recorded: its choices no longer name enabled threads
            println!("the recorded schedule cannot be followed on the current tree ({}): the code has changed since it was recorded; run the check again", f);
            2
        }
        Some(f) => {
            println!("REPRODUCED: {}", f);
            println!("VIOLATION property={} replay={}", prop, path);
            1
        }
        None => {
            println!("the recorded schedule no longer fails on the current tree");
            0
        }
    }
}
