//! `vcheck selftest`: checks the machinery itself (runtime semantics, explorer counts, crash path,
//! sanitizer build, unlock-elision cross-check).  Exit 0 = all good, 2 = machinery broken.
use crate::explore::*;
use crate::h::Cfg;
use std::collections::BTreeSet;

fn run(exe: &str, scenario: &str, cfg: &str, bound: usize, elide: bool) -> ExploreResult {
    let spec = WorkerSpec { scenario: scenario.to_string(), cfg: Cfg::parse(cfg), bound, elide, try_sites: vec![], seed: 7, fresh: false };
    explore(exe, &spec, &Limits { workers: 4, deadline: None, stop_on_violation: false })
}

fn outcomes(r: &ExploreResult) -> BTreeSet<String> {
    r.stats.outcomes.keys().cloned().collect()
}

pub fn selftest_main(exe: &str, thorough: bool) -> i32 {
    let mut bad = 0;
    let mut check = |name: &str, ok: bool, detail: String| {
        println!("{} {} {}", if ok { "ok  " } else { "FAIL" }, name, detail);
        if !ok {
            bad += 1;
        }
    };
    let set = |v: &[&str]| v.iter().map(|s| s.to_string()).collect::<BTreeSet<_>>();

    // runtime semantics with known outcome sets and schedule counts
    let r = run(exe, "st_lost_update", "", 2, true);
    check("lost update found, both outcomes, 32 schedules at PB=2", outcomes(&r) == set(&["final=1", "final=2"]) && r.stats.execs == 32 && r.vios.is_empty(), format!("{:?} execs={}", outcomes(&r), r.stats.execs));
    let r = run(exe, "st_lost_update", "", 0, true);
    check("lost update needs a preemption", outcomes(&r) == set(&["final=2"]), format!("{:?}", outcomes(&r)));
    let r = run(exe, "st_lost_notify", "", 2, true);
    check("lost notification = deadlock in 2 of 7 schedules", r.stats.execs == 7 && r.vios.len() == 2 && r.vios.iter().all(|v| v.text.starts_with("DEADLOCK")), format!("execs={} vios={}", r.stats.execs, r.vios.len()));
    let r = run(exe, "st_try_lock", "", 2, true);
    check("try_lock sees held and free; elision restarted once for the try-locked site", outcomes(&r) == set(&["try_lock=false", "try_lock=true"]) && r.try_sites.len() == 1, format!("{:?} sites={:?}", outcomes(&r), r.try_sites));
    let r = run(exe, "st_disconnect", "", 2, true);
    check("mpsc disconnect", outcomes(&r) == set(&["Some(7),true"]) && r.vios.is_empty(), format!("{:?}", outcomes(&r)));
    let r = run(exe, "st_park_token", "", 2, true);
    check("park token", outcomes(&r) == set(&["parked"]) && r.vios.is_empty(), format!("{:?}", outcomes(&r)));
    let r = run(exe, "st_poison", "", 2, true);
    check("poison on panic, join reports the panic", outcomes(&r) == set(&["panicked=true,poisoned=true"]), format!("{:?}", outcomes(&r)));
    let r = run(exe, "st_notify_choice", "", 1, true);
    check("notify_one victim is an explored choice", outcomes(&r) == set(&["first=[0]", "first=[1]"]) && r.vios.is_empty(), format!("{:?}", outcomes(&r)));

    // a worker killed by the subject is traced back to one schedule and reproduced
    std::env::set_var("VCHECK_QUIET_WORKERS", "1");
    let r = run(exe, "st_segv", "pool=0", 0, true);
    std::env::remove_var("VCHECK_QUIET_WORKERS");
    let spec = WorkerSpec { scenario: "st_segv".into(), cfg: Cfg::parse("pool=0"), bound: 0, elide: true, try_sites: vec![], seed: 7, fresh: false };
    let reproduced = r.crashed.iter().any(|c| c.prefix.as_ref().map(|p| replay_dies(exe, &spec, p).is_some()).unwrap_or(false));
    check("subject crash is attributed to a schedule and reproduced", !r.crashed.is_empty() && reproduced, format!("crashes={}", r.crashed.len()));

    // the sanitizer build traps a use-after-free that the normal build does not notice
    let asan = format!("{}/engine/target-asan/x86_64-unknown-linux-gnu/release/vcheck", crate::check::VERIF_DIR);
    if std::path::Path::new(&asan).exists() {
        std::env::set_var("ASAN_OPTIONS", "detect_leaks=0:abort_on_error=0:exitcode=99:handle_segv=1");
        std::env::set_var("VCHECK_QUIET_WORKERS", "1");
        let r = run(&asan, "selftest_uaf", "pool=0", 0, true);
        std::env::remove_var("VCHECK_QUIET_WORKERS");
        check("AddressSanitizer build traps a use-after-free inside a job", !r.crashed.is_empty(), format!("crashes={}", r.crashed.len()));
        let r = run(exe, "selftest_uaf", "pool=0", 0, true);
        check("(the normal build does not)", r.crashed.is_empty(), String::new());
    } else {
        check("AddressSanitizer build present", false, asan);
    }

    // unlock-elision cross-check: same outcome sets and verdicts with the reduction off
    let mut cross = vec![("f3_sync_sync", "pool=1", 2), ("try_paths", "pool=1,path=0", 2), ("wake_ctx", "pool=1,kind=0,ctx=2,wake=0", 2), ("prog", "pool=1,a=4,b=5", 2)];
    if thorough {
        cross.push(("sync_states", "pool=1,st=5,n=2", 2));
        cross.push(("pipe_out", "pool=1,n=2,d=1,pat=1", 2));
        cross.push(("prog", "pool=1,a=6,b=3,c=0", 1));
    }
    for (sc, cfg, b) in cross {
        let on = run(exe, sc, cfg, b, true);
        let off = run(exe, sc, cfg, b, false);
        check(
            &format!("elision cross-check {} [{}] PB={}", sc, cfg, b),
            outcomes(&on) == outcomes(&off) && on.vios.is_empty() == off.vios.is_empty() && off.stats.execs >= on.stats.execs,
            format!("elided: {} schedules / {} outcomes; full: {} schedules / {} outcomes", on.stats.execs, on.stats.outcomes.len(), off.stats.execs, off.stats.outcomes.len()),
        );
    }
    if bad == 0 {
        println!("selftest: all machinery checks passed");
        0
    } else {
        println!("selftest: {} machinery check(s) FAILED", bad);
        2
    }
}
