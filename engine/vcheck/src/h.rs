//! Harness layer: recorder (shared observation vocabulary), payloads, gates, scripted streams,
//! operation wrappers over raw job queues and `Desync<Payload>` objects.
//!
//! Discipline: harness bookkeeping uses *real* std mutexes which are only ever held for straight-line
//! code (never across a vsched operation), so they add no scheduling points and cannot deadlock.

use desync::scheduler::{self, scheduler, JobQueue, Scheduler};
use desync::Desync;
use futures::future::BoxFuture;
use futures::task::{waker, ArcWake, Context, Poll, Waker};
use futures::FutureExt;
use std::collections::VecDeque;
use std::future::Future;
use std::pin::Pin;
use std::sync::atomic::{AtomicUsize, Ordering as AO};
use std::sync::{Arc, Mutex as StdMutex};
use vsched::rt;
use vsched::thread as vthread;

/// `inl`=1 (any scenario): every task the harness awaits is run by a *run-on-wake executor*: its waker polls the task on the
/// spot, on whatever thread delivers the wake-up (unless the task is being polled at that moment: then that poller polls
/// once more).  Legal and not even rare (an executor built on a Desync works like this); it punishes library code that calls
/// a user's waker while holding one of its own locks.
static INLINE_WAKERS: std::sync::atomic::AtomicBool = std::sync::atomic::AtomicBool::new(false);

pub fn set_inline_wakers(on: bool) {
    INLINE_WAKERS.store(on, AO::SeqCst);
}

pub fn block_on<F: Future + Send>(f: F) -> F::Output
where
    F::Output: Send,
{
    if INLINE_WAKERS.load(AO::SeqCst) {
        inline_block_on(f)
    } else {
        vsched::executor::block_on(f)
    }
}

struct InlineTask {
    /// the task lock: held while the task is polled, by the awaiting thread and by every waker alike
    fut: vsched::sync::Mutex<Option<Pin<Box<dyn Future<Output = ()> + Send + 'static>>>>,
    repoll: std::sync::atomic::AtomicBool,
    done: BGate,
}

impl futures::task::ArcWake for InlineTask {
    fn wake_by_ref(a: &Arc<Self>) {
        InlineTask::poll_now(a);
    }
}

impl InlineTask {
    /// Never blocks: if the task is being polled right now (by another thread, or by this very thread further up the stack)
    /// that poller is told to poll once more.
    fn poll_now(a: &Arc<Self>) {
        a.repoll.store(true, AO::SeqCst);
        loop {
            let mut finished = false;
            match a.fut.try_lock() {
                Ok(mut g) => {
                    while a.repoll.swap(false, AO::SeqCst) {
                        let ready = match g.as_mut() {
                            None => false,
                            Some(f) => {
                                let w = futures::task::waker(a.clone());
                                let mut cx = Context::from_waker(&w);
                                f.as_mut().poll(&mut cx).is_ready()
                            }
                        };
                        if ready {
                            *g = None;
                            finished = true;
                        }
                    }
                }
                Err(_) => return,
            }
            if finished {
                a.done.open();
                return;
            }
            if !a.repoll.load(AO::SeqCst) {
                return;
            }
        }
    }
}

pub fn inline_block_on<F: Future + Send>(f: F) -> F::Output
where
    F::Output: Send,
{
    let slot: Arc<StdMutex<Option<F::Output>>> = Arc::new(StdMutex::new(None));
    let slot2 = slot.clone();
    let wrapped = async move {
        let v = f.await;
        *slot2.lock().unwrap() = Some(v);
    };
    let boxed: Pin<Box<dyn Future<Output = ()> + Send + '_>> = Box::pin(wrapped);
    // (the future is destroyed, inside `poll_now`, before this function returns: wakers that outlive it find `None`)
    let boxed: Pin<Box<dyn Future<Output = ()> + Send + 'static>> = unsafe { std::mem::transmute(boxed) };
    let task = Arc::new(InlineTask { fut: vsched::sync::Mutex::new(Some(boxed)), repoll: std::sync::atomic::AtomicBool::new(false), done: BGate::new() });
    InlineTask::poll_now(&task);
    task.done.wait();
    let v = slot.lock().unwrap().take();
    v.expect("inline task finished without a result")
}

pub const POOL_NAME: &str = "desync jobs thread";

/// Named integer parameters of a scenario instance
#[derive(Clone, Debug, Default, PartialEq, Eq, PartialOrd, Ord)]
pub struct Cfg(pub Vec<(String, i64)>);

impl Cfg {
    pub fn parse(s: &str) -> Cfg {
        let mut v = vec![];
        for kv in s.split(',').filter(|x| !x.is_empty()) {
            let (k, val) = kv.split_once('=').expect("cfg k=v");
            v.push((k.to_string(), val.parse().expect("cfg int")));
        }
        Cfg(v)
    }
    pub fn get(&self, k: &str) -> i64 {
        self.0.iter().find(|e| e.0 == k).map(|e| e.1).unwrap_or_else(|| panic!("scenario parameter '{}' missing", k))
    }
    pub fn opt(&self, k: &str, d: i64) -> i64 {
        self.0.iter().find(|e| e.0 == k).map(|e| e.1).unwrap_or(d)
    }
    pub fn to_string(&self) -> String {
        self.0.iter().map(|(k, v)| format!("{}={}", k, v)).collect::<Vec<_>>().join(",")
    }
    pub fn pool(&self) -> usize {
        self.get("pool") as usize
    }
}

/// cfg of the scenario instance that is running (set by the explorer before the scenario function is called)
static CUR_CFG: StdMutex<Option<(u64, Cfg)>> = StdMutex::new(None);
/// `priv`=1: the scheduler every raw queue of this execution belongs to is a private `Scheduler::new()`; the global one is
/// kept without threads (address of the leaked instance, freed by `shutdown`)
static PRIV_SCHED: StdMutex<Option<(u64, usize)>> = StdMutex::new(None);

pub fn set_current_cfg(cfg: &Cfg) {
    *CUR_CFG.lock().unwrap() = Some((rt::exec_id(), cfg.clone()));
}

pub fn current_cfg_opt(k: &str, d: i64) -> i64 {
    match &*CUR_CFG.lock().unwrap() {
        Some((id, c)) if *id == rt::exec_id() => c.opt(k, d),
        _ => d,
    }
}

/// The scheduler the scenario's raw queues are used with: the global one, or this execution's private instance
pub fn sched() -> &'static Scheduler {
    if let Some((id, p)) = *PRIV_SCHED.lock().unwrap() {
        if id == rt::exec_id() {
            return unsafe { &*(p as *const Scheduler) };
        }
    }
    scheduler()
}

pub fn private_scheduler() -> bool {
    matches!(*PRIV_SCHED.lock().unwrap(), Some((id, _)) if id == rt::exec_id())
}

pub fn setup(pool: usize) {
    set_inline_wakers(false);
    if current_cfg_opt("priv", 0) == 1 {
        let s: &'static Scheduler = Box::leak(Box::new(Scheduler::new()));
        *PRIV_SCHED.lock().unwrap() = Some((rt::exec_id(), s as *const Scheduler as usize));
        scheduler().verif_set_max_threads(0);
    }
    sched().verif_set_max_threads(pool);
    rt::set_census_limit(POOL_NAME, pool);
}

/// Stops every pool thread (only call when all work is done)
pub fn shutdown() {
    sched().verif_set_max_threads(0);
    sched().despawn_threads_if_overloaded();
    let live = rt::live_threads_named(POOL_NAME);
    if live != 0 {
        rt::violation(format!("{} pool threads still alive after the maximum was lowered to 0 and despawn_threads_if_overloaded returned", live));
    }
    let p = PRIV_SCHED.lock().unwrap().take();
    if let Some((id, p)) = p {
        if id == rt::exec_id() {
            // nothing refers to the private scheduler any more: every thread has been joined, every future is gone
            drop(unsafe { Box::from_raw(p as *mut Scheduler) });
        }
    }
}

// ------------------------------------------------------------------------------------------------
// Recorder

#[derive(Clone, Copy, Debug, PartialEq, Eq)]
pub enum Kind {
    Desync,
    Sync,
    TrySync,
    FutureDesync,
    FutureSync,
    After,
    PipeItem,
    Drop,
    Suspend,
}

#[derive(Clone, Debug)]
pub struct OpRec {
    pub name: String,
    pub obj: usize,
    pub kind: Kind,
    pub inv: u64,
    pub ret: Option<u64>,
    /// None until known (try_sync: known at return)
    pub accepted: Option<bool>,
    pub starts: Vec<u64>,
    pub ends: Vec<u64>,
    /// future-based op whose future was destroyed before completing
    pub cancelled: bool,
    /// the op is allowed never to start (cancelled future_sync, try_sync Busy)
    pub may_not_run: bool,
    pub resolved: Option<u64>,
}

#[derive(Default)]
pub struct Rec {
    ops: StdMutex<Vec<OpRec>>,
}

pub type OpId = usize;

impl Rec {
    pub fn new() -> Arc<Rec> {
        Arc::new(Rec::default())
    }

    /// The scheduling call for this op is about to be made
    pub fn inv(&self, name: &str, obj: usize, kind: Kind) -> OpId {
        let t = rt::tick();
        let mut ops = self.ops.lock().unwrap();
        ops.push(OpRec { name: name.to_string(), obj, kind, inv: t, ret: None, accepted: if kind == Kind::TrySync { None } else { Some(true) }, starts: vec![], ends: vec![], cancelled: false, may_not_run: false, resolved: None });
        ops.len() - 1
    }

    /// The scheduling call returned
    pub fn ret(&self, op: OpId) {
        let t = rt::tick();
        self.ops.lock().unwrap()[op].ret = Some(t);
    }

    pub fn set_accepted(&self, op: OpId, a: bool) {
        let mut ops = self.ops.lock().unwrap();
        ops[op].accepted = Some(a);
        if !a {
            ops[op].may_not_run = true;
        }
    }

    pub fn set_may_not_run(&self, op: OpId) {
        self.ops.lock().unwrap()[op].may_not_run = true;
    }

    pub fn resolved(&self, op: OpId) {
        let t = rt::tick();
        let mut ops = self.ops.lock().unwrap();
        if ops[op].resolved.is_some() {
            drop(ops);
            rt::violation(format!("op {} resolved twice", op));
            return;
        }
        ops[op].resolved = Some(t);
        let ended = !ops[op].ends.is_empty();
        let name = ops[op].name.clone();
        drop(ops);
        if !ended {
            rt::violation(format!("RESULT-BEFORE-END the future of {} resolved before its operation finished", name));
        }
    }

    /// The op's closure has been invoked.  Checks the order oracle (C02) inline.
    pub fn start(&self, op: OpId) {
        let t = rt::tick();
        let mut msgs = vec![];
        {
            let mut ops = self.ops.lock().unwrap();
            ops[op].starts.push(t);
            if ops[op].starts.len() > 1 {
                msgs.push(format!("DUPLICATE op {} started {} times", ops[op].name, ops[op].starts.len()));
            }
            let (obj, inv) = (ops[op].obj, ops[op].inv);
            if ops[op].kind == Kind::TrySync && ops[op].ret.is_some() {
                msgs.push(format!("SYNC-WINDOW closure of {} ran after the call returned", ops[op].name));
            }
            for (i, a) in ops.iter().enumerate() {
                if i == op || a.obj != obj {
                    continue;
                }
                if let Some(r) = a.ret {
                    if r < inv && a.accepted == Some(true) && a.ends.is_empty() && !(a.may_not_run && a.starts.is_empty()) {
                        msgs.push(format!("ORDER {} (call returned at {}) had not finished when {} (invoked at {}) started", a.name, r, ops[op].name, inv));
                    }
                }
            }
        }
        for m in msgs {
            rt::violation(m);
        }
    }

    /// The closure that creates a future-based operation's future has just been invoked: this already hands out `&mut T`,
    /// so it must happen inside the operation's exclusive, ordered slot (and, for future_sync, only once the returned future
    /// is being awaited, never inside the scheduling call)
    pub fn closure_called(&self, op: OpId, st: &ObjState) {
        let mut msgs = vec![];
        {
            let ops = self.ops.lock().unwrap();
            let me = &ops[op];
            if st.occupancy() != 0 {
                msgs.push(format!("OVERLAP the closure of {} was invoked on object {} while {} other operation(s) were inside", me.name, st.id, st.occupancy()));
            }
            if me.kind == Kind::FutureSync && me.ret.is_none() {
                msgs.push(format!("CANCEL the closure of {} (FS) was invoked inside the scheduling call, before the returned future was awaited", me.name));
            }
            for (i, a) in ops.iter().enumerate() {
                if i == op || a.obj != me.obj {
                    continue;
                }
                if let Some(r) = a.ret {
                    if r < me.inv && a.accepted == Some(true) && a.ends.is_empty() && !(a.may_not_run && a.starts.is_empty()) {
                        msgs.push(format!("ORDER {} (call returned at {}) had not finished when the closure of {} (invoked at {}) was called", a.name, r, me.name, me.inv));
                    }
                }
            }
        }
        for m in msgs {
            rt::violation(m);
        }
    }

    /// The op finished: closure returned, future completed, or future destroyed
    pub fn end(&self, op: OpId, cancelled: bool) {
        let t = rt::tick();
        let mut ops = self.ops.lock().unwrap();
        ops[op].ends.push(t);
        if cancelled {
            ops[op].cancelled = true;
        }
    }

    pub fn get(&self, op: OpId) -> OpRec {
        self.ops.lock().unwrap()[op].clone()
    }

    pub fn all(&self) -> Vec<OpRec> {
        self.ops.lock().unwrap().clone()
    }

    /// O-once at quiescence: every accepted op ran exactly once and has ended
    pub fn check_once(&self) {
        let ops = self.all();
        for o in &ops {
            if o.accepted != Some(true) {
                if !o.starts.is_empty() {
                    rt::violation(format!("HALF-RUN {} was refused (Busy) but its closure ran", o.name));
                }
                continue;
            }
            if o.starts.is_empty() {
                if !o.may_not_run {
                    rt::violation(format!("STRANDED {} was accepted but never ran", o.name));
                }
                continue;
            }
            if o.starts.len() != 1 {
                rt::violation(format!("DUPLICATE {} ran {} times", o.name, o.starts.len()));
            }
            if o.ends.is_empty() {
                rt::violation(format!("UNFINISHED {} started but has not finished at quiescence", o.name));
            }
        }
    }

    /// Full order oracle over completed history (the inline check in `start` already covers it;
    /// this one also catches `a` ending after `b` started when `a` started first)
    pub fn check_order(&self) {
        let ops = self.all();
        for a in &ops {
            for b in &ops {
                if a.obj != b.obj || a.accepted != Some(true) || b.accepted != Some(true) {
                    continue;
                }
                if let (Some(r), Some(sb)) = (a.ret, b.starts.first()) {
                    if r < b.inv {
                        match a.ends.first() {
                            Some(ea) if ea < sb => {}
                            Some(_) => rt::violation(format!("ORDER {} ended after {} started although its call returned before the other was invoked", a.name, b.name)),
                            None => {
                                if !(a.may_not_run && a.starts.is_empty()) {
                                    rt::violation(format!("ORDER {} never finished but {} (invoked later) ran", a.name, b.name))
                                }
                            }
                        }
                    }
                }
            }
        }
    }

    /// Execution order of the ops that ran, as names
    pub fn run_order(&self) -> Vec<String> {
        let mut v: Vec<(u64, String)> = self.all().iter().filter_map(|o| o.starts.first().map(|s| (*s, o.name.clone()))).collect();
        v.sort();
        v.into_iter().map(|x| x.1).collect()
    }
}

// ------------------------------------------------------------------------------------------------
// Objects

/// Shared per-object state used by the exclusivity oracle (C01)
pub struct ObjState {
    pub id: usize,
    occ: AtomicUsize,
    pub dead: AtomicUsize,
    inside: StdMutex<Vec<String>>,
}

impl ObjState {
    pub fn enter(&self, who: &str) {
        if self.dead.load(AO::SeqCst) != 0 {
            rt::violation(format!("USE-AFTER-DROP {} ran on object {} after its value was destroyed", who, self.id));
        }
        let prev = self.occ.fetch_add(1, AO::SeqCst);
        let others = {
            let mut i = self.inside.lock().unwrap();
            let o = i.join(",");
            i.push(who.to_string());
            o
        };
        if prev != 0 {
            rt::violation(format!("OVERLAP {} entered object {} while {} other operation(s) were inside [{}]", who, self.id, prev, others));
        }
    }
    pub fn exit(&self) {
        self.occ.fetch_sub(1, AO::SeqCst);
        self.inside.lock().unwrap().pop();
    }
    pub fn exit_named(&self, who: &str) {
        self.occ.fetch_sub(1, AO::SeqCst);
        let mut i = self.inside.lock().unwrap();
        if let Some(p) = i.iter().position(|x| x == who) {
            i.remove(p);
        }
    }
    pub fn occupancy(&self) -> usize {
        self.occ.load(AO::SeqCst)
    }
}

const CANARY: u64 = 0x5eed_c0de_dead_beef;

/// Value protected by a `Desync`
pub struct Payload {
    canary: u64,
    pub st: Arc<ObjState>,
    pub drops: Arc<AtomicUsize>,
    pub log: Vec<usize>,
    boxed: Box<u64>,
}

impl Payload {
    pub fn check(&self, who: &str) {
        if self.canary != CANARY || *self.boxed != CANARY {
            rt::violation(format!("CANARY {} found the payload of object {} corrupted or freed", who, self.st.id));
        }
    }
}

impl Drop for Payload {
    fn drop(&mut self) {
        if self.st.occupancy() != 0 {
            rt::violation(format!("DROP-WHILE-BUSY payload of object {} destroyed while an operation was inside", self.st.id));
        }
        self.canary = 0;
        *self.boxed = 0;
        self.st.dead.fetch_add(1, AO::SeqCst);
        self.drops.fetch_add(1, AO::SeqCst);
    }
}

#[derive(Clone)]
pub enum Obj {
    Raw(Arc<JobQueue>, Arc<ObjState>),
    D(Arc<Desync<Payload>>, Arc<ObjState>),
}

impl Obj {
    pub fn st(&self) -> &Arc<ObjState> {
        match self {
            Obj::Raw(_, s) => s,
            Obj::D(_, s) => s,
        }
    }
    pub fn id(&self) -> usize {
        self.st().id
    }
}

/// What an operation's closure does between `enter` and `exit`
#[derive(Clone, Default)]
pub struct Body {
    /// suspend on this gate (async bodies) / block on it (plain bodies use `bgate`)
    pub gate: Option<Gate>,
    /// async bodies: a second await after the first
    pub gate2: Option<Gate>,
    pub bgate: Option<BGate>,
    /// arbitrary action run inside the operation (nested scheduling calls ...)
    pub action: Option<Arc<dyn Fn() + Send + Sync>>,
    pub panic: bool,
    /// number of scheduling points opened inside the body (default 1)
    pub yields: Option<usize>,
    /// async bodies: wake the operation's own waker during the poll (the wake-up arrives while running)
    pub self_wake: bool,
    /// async bodies: return Pending once without arranging any wake-up and be Ready when polled again (only a spurious
    /// re-poll, e.g. by another runner taking the queue over, completes it)
    pub silent_step: bool,
    /// async bodies: block (synchronously, inside the first poll) on this gate before anything is awaited
    pub hold: Option<BGate>,
    /// panicking bodies: run from a destructor while the operation's panic unwinds (a clean-up guard owned by the closure)
    pub on_unwind: Option<Arc<dyn Fn() + Send + Sync>>,
}

/// A value owned by a panicking operation whose destructor does something (uses another object) during the unwinding
struct UnwindGuard(Arc<dyn Fn() + Send + Sync>);
impl Drop for UnwindGuard {
    fn drop(&mut self) {
        (self.0)()
    }
}

impl Body {
    pub fn plain() -> Body {
        Body::default()
    }
    pub fn gated(g: &Gate) -> Body {
        Body { gate: Some(g.clone()), ..Body::default() }
    }
    pub fn blocking(g: &BGate) -> Body {
        Body { bgate: Some(g.clone()), ..Body::default() }
    }
    pub fn with(f: impl Fn() + Send + Sync + 'static) -> Body {
        Body { action: Some(Arc::new(f)), ..Body::default() }
    }
    pub fn panicking() -> Body {
        Body { panic: true, ..Body::default() }
    }

    fn run_sync(&self, rec: &Rec, op: OpId, st: &ObjState, name: &str) {
        rec.start(op);
        st.enter(name);
        for _ in 0..self.yields.unwrap_or(1) {
            vthread::yield_now();
        }
        if let Some(g) = &self.bgate {
            g.wait();
        }
        if let Some(a) = &self.action {
            a();
        }
        if self.panic {
            let _guard = self.on_unwind.clone().map(UnwindGuard);
            st.exit_named(name);
            rec.end(op, false);
            panic!("PLANNED-PANIC in {}", name);
        }
        st.exit_named(name);
        rec.end(op, false);
    }
}

/// Marks the end of an async operation when the future completes *or is destroyed*
struct AsyncSpan {
    rec: Arc<Rec>,
    op: OpId,
    st: Arc<ObjState>,
    name: String,
    done: bool,
}

impl Drop for AsyncSpan {
    fn drop(&mut self) {
        if !self.done {
            self.st.exit_named(&self.name);
            self.rec.end(self.op, true);
        }
    }
}

/// A user future whose *destructor* still uses the `&mut T` it borrowed (hand-written futures may; async blocks drop their
/// locals inside the final poll): the destructor enters the object, opens a scheduling point and leaves.  It must always run
/// inside the operation's exclusive slot.
pub struct DropTouch<F> {
    inner: Option<Pin<Box<F>>>,
    st: Arc<ObjState>,
    name: String,
}

impl<F: Future> DropTouch<F> {
    pub fn new(inner: F, st: &Arc<ObjState>, name: &str) -> DropTouch<F> {
        DropTouch { inner: Some(Box::pin(inner)), st: st.clone(), name: format!("{}/destructor", name) }
    }
}

impl<F: Future> Future for DropTouch<F> {
    type Output = F::Output;
    fn poll(mut self: Pin<&mut Self>, cx: &mut Context) -> Poll<F::Output> {
        self.inner.as_mut().unwrap().as_mut().poll(cx)
    }
}

impl<F> Drop for DropTouch<F> {
    fn drop(&mut self) {
        // the wrapped future goes first (an operation cancelled mid-way leaves the object there)
        drop(self.inner.take());
        if self.st.dead.load(AO::SeqCst) != 0 {
            rt::violation(format!("USE-AFTER-DROP {} ran on object {} after its value was destroyed", self.name, self.st.id));
            return;
        }
        self.st.enter(&self.name);
        vthread::yield_now();
        self.st.exit_named(&self.name);
    }
}

/// Wakes the polling context's waker once, during the poll, and completes
struct SelfWake;
impl Future for SelfWake {
    type Output = ();
    fn poll(self: Pin<&mut Self>, cx: &mut Context) -> Poll<()> {
        vthread::yield_now();
        cx.waker().wake_by_ref();
        vthread::yield_now();
        Poll::Ready(())
    }
}

/// A cooperative yield: the first poll wakes the polling context's waker and returns Pending, the second is Ready
pub struct YieldOnce(pub bool);
impl Future for YieldOnce {
    type Output = ();
    fn poll(mut self: Pin<&mut Self>, cx: &mut Context) -> Poll<()> {
        vthread::yield_now();
        if self.0 {
            Poll::Ready(())
        } else {
            self.0 = true;
            cx.waker().wake_by_ref();
            vthread::yield_now();
            Poll::Pending
        }
    }
}

/// Pending on its first poll (nothing registered: the caller is expected to be woken by other means), Ready on the next
pub struct WaitOnce(pub bool);
impl Future for WaitOnce {
    type Output = ();
    fn poll(mut self: Pin<&mut Self>, _cx: &mut Context) -> Poll<()> {
        if self.0 {
            Poll::Ready(())
        } else {
            self.0 = true;
            Poll::Pending
        }
    }
}

/// Polls the inner future exactly once and reports what it said
pub struct PollOnce<'a, F: Future + Unpin>(pub &'a mut F);
impl<'a, F: Future + Unpin> Future for PollOnce<'a, F> {
    type Output = Poll<F::Output>;
    fn poll(mut self: Pin<&mut Self>, cx: &mut Context) -> Poll<Poll<F::Output>> {
        Poll::Ready(Pin::new(&mut *self.0).poll(cx))
    }
}

/// Pending on its first poll without registering or firing any waker, Ready on the next poll
struct SilentTwoStep(bool);
impl Future for SilentTwoStep {
    type Output = ();
    fn poll(mut self: Pin<&mut Self>, _cx: &mut Context) -> Poll<()> {
        vthread::yield_now();
        if self.0 {
            Poll::Ready(())
        } else {
            self.0 = true;
            Poll::Pending
        }
    }
}

async fn run_async(body: Body, rec: Arc<Rec>, op: OpId, st: Arc<ObjState>, name: String) {
    rec.start(op);
    st.enter(&name);
    let mut span = AsyncSpan { rec: rec.clone(), op, st: st.clone(), name: name.clone(), done: false };
    for _ in 0..body.yields.unwrap_or(1) {
        vthread::yield_now();
    }
    if body.self_wake {
        SelfWake.await;
    }
    if body.silent_step {
        SilentTwoStep(false).await;
        vthread::yield_now();
    }
    if let Some(h) = &body.hold {
        // the operation stays inside this poll (its queue is Running on the polling thread) until the environment lets go
        h.wait();
    }
    if let Some(g) = &body.gate {
        g.clone().await;
        // a scheduling point after the resumption, still inside the operation
        vthread::yield_now();
        if st.dead.load(AO::SeqCst) != 0 {
            rt::violation(format!("USE-AFTER-DROP {} resumed on object {} after its value was destroyed", name, st.id));
        }
        // the operation is still exclusive after the await
        if st.occupancy() != 1 {
            rt::violation(format!("OVERLAP {} resumed on object {} with occupancy {}", name, st.id, st.occupancy()));
        }
    }
    if let Some(g) = &body.gate2 {
        g.clone().await;
        vthread::yield_now();
        if st.dead.load(AO::SeqCst) != 0 {
            rt::violation(format!("USE-AFTER-DROP {} resumed on object {} after its value was destroyed", name, st.id));
        }
        if st.occupancy() != 1 {
            rt::violation(format!("OVERLAP {} resumed on object {} with occupancy {}", name, st.id, st.occupancy()));
        }
    }
    if let Some(a) = &body.action {
        a();
    }
    if body.panic {
        let _guard = body.on_unwind.clone().map(UnwindGuard);
        panic!("PLANNED-PANIC in {}", name);
    }
    span.done = true;
    st.exit_named(&name);
    rec.end(op, false);
}

/// A world: the recorder plus the objects of one execution
/// the world of the execution that is currently running (looked up by `spawn`)
static CUR_WORLD: StdMutex<Option<(u64, std::sync::Weak<World>)>> = StdMutex::new(None);

pub type KeptFuture = (Pin<Box<scheduler::SchedulerFuture<u64>>>, u64, OpId, String);

pub struct World {
    pub rec: Arc<Rec>,
    /// futures polled once and kept (generated programs)
    pub kept: StdMutex<Vec<KeptFuture>>,
    /// environment threads and objects of the saturated-start prelude
    pre_env: StdMutex<Vec<vthread::JoinHandle<()>>>,
    pre_objs: StdMutex<Vec<Obj>>,
    /// stale-waker environment (`sw=1`): every object first hosts a future operation that completes, and the wakers that
    /// operation was polled with all fire once more at an arbitrary moment after the scenario's first thread was spawned
    sw: std::sync::atomic::AtomicBool,
    sw_pool: AtomicUsize,
    sw_started: std::sync::atomic::AtomicBool,
    sw_gates: StdMutex<Vec<Gate>>,
    next_id: AtomicUsize,
    pub objs: StdMutex<Vec<Arc<ObjState>>>,
    pub payload_drops: Arc<AtomicUsize>,
}

impl World {
    pub fn new() -> Arc<World> {
        let w = Self::new_unregistered();
        *CUR_WORLD.lock().unwrap() = Some((rt::exec_id(), Arc::downgrade(&w)));
        w
    }

    fn new_unregistered() -> Arc<World> {
        Arc::new(World { rec: Rec::new(), kept: StdMutex::new(vec![]), pre_env: StdMutex::new(vec![]), pre_objs: StdMutex::new(vec![]), sw: std::sync::atomic::AtomicBool::new(false), sw_pool: AtomicUsize::new(0), sw_started: std::sync::atomic::AtomicBool::new(false), sw_gates: StdMutex::new(vec![]), next_id: AtomicUsize::new(0), objs: StdMutex::new(vec![]), payload_drops: Arc::new(AtomicUsize::new(0)) })
    }

    pub fn raw(&self) -> Obj {
        let mut objs = self.objs.lock().unwrap();
        let st = Arc::new(ObjState { id: self.next_id.fetch_add(1, AO::SeqCst), occ: AtomicUsize::new(0), dead: AtomicUsize::new(0), inside: StdMutex::new(vec![]) });
        objs.push(st.clone());
        drop(objs);
        let o = Obj::Raw(sched().create_job_queue(), st);
        self.harvest(&o);
        o
    }

    /// `sw=1`: an earlier future operation on the new object, polled with a waker that is kept
    fn harvest(&self, o: &Obj) {
        if !self.sw.load(AO::SeqCst) {
            return;
        }
        let g = Gate::new();
        self.future_desync(o, "HARVEST-FD", Body::gated(&g)).detach();
        if self.sw_pool.load(AO::SeqCst) == 0 {
            // no pool thread: the operation is run by this thread inside sync (thread waker)
            let g2 = g.clone();
            let e = vthread::spawn(move || g2.open());
            self.sync(o, "HARVEST-DRAIN", Body::plain());
            join(e, "harvest-opener");
        } else {
            rt::quiesce();
            g.open();
            rt::quiesce();
        }
        self.sw_gates.lock().unwrap().push(g);
    }

    pub fn new_payload(&self) -> (Payload, Arc<ObjState>) {
        let st = Arc::new(ObjState { id: self.next_id.fetch_add(1, AO::SeqCst), occ: AtomicUsize::new(0), dead: AtomicUsize::new(0), inside: StdMutex::new(vec![]) });
        (Payload { canary: CANARY, st: st.clone(), drops: self.payload_drops.clone(), log: vec![], boxed: Box::new(CANARY) }, st)
    }

    pub fn desync_obj(&self) -> Obj {
        assert!(!private_scheduler(), "priv=1 needs raw queues: Desync objects always use the global scheduler");
        let (p, st) = self.new_payload();
        self.objs.lock().unwrap().push(st.clone());
        let o = Obj::D(Arc::new(Desync::new(p)), st);
        self.harvest(&o);
        o
    }

    // ---- operations -------------------------------------------------------------------------

    pub fn desync(&self, o: &Obj, name: &str, body: Body) -> OpId {
        let rec = self.rec.clone();
        let op = rec.inv(name, o.id(), Kind::Desync);
        let nm = name.to_string();
        match o {
            Obj::Raw(q, st) => {
                let st = st.clone();
                let rec2 = rec.clone();
                sched().desync(q, move || body.run_sync(&rec2, op, &st, &nm));
            }
            Obj::D(d, _) => {
                let rec2 = rec.clone();
                d.desync(move |p| {
                    p.check(&nm);
                    let st = p.st.clone();
                    body.run_sync(&rec2, op, &st, &nm);
                    p.log.push(op);
                });
            }
        }
        rec.ret(op);
        op
    }

    /// Returns the op id; checks O-sync (own result, ran exactly once inside the call)
    pub fn sync(&self, o: &Obj, name: &str, body: Body) -> OpId {
        let rec = self.rec.clone();
        let op = rec.inv(name, o.id(), Kind::Sync);
        let nm = name.to_string();
        // a heap canary borrowed by the closure: freed right after the call (C14)
        let borrowed = Box::new(CANARY ^ op as u64);
        let bref: &u64 = &borrowed;
        let prev_note = rt::note(&format!("in:sync {}", name));
        let token = match o {
            Obj::Raw(q, st) => {
                let rec2 = rec.clone();
                sched().sync(q, || {
                    body.run_sync(&rec2, op, st, &nm);
                    *bref
                })
            }
            Obj::D(d, _) => {
                let rec2 = rec.clone();
                d.sync(|p| {
                    p.check(&nm);
                    let st = p.st.clone();
                    body.run_sync(&rec2, op, &st, &nm);
                    p.log.push(op);
                    *bref
                })
            }
        };
        rec.ret(op);
        rt::note(&prev_note);
        drop(borrowed);
        let r = rec.get(op);
        if token != CANARY ^ op as u64 {
            rt::violation(format!("SYNC-RESULT {} returned a value that is not its own closure's", name));
        }
        if r.starts.len() != 1 || r.ends.len() != 1 {
            rt::violation(format!("SYNC-ONCE {} returned but its closure ran {} times / finished {} times", name, r.starts.len(), r.ends.len()));
        } else if !(r.inv < r.starts[0] && r.ends[0] < r.ret.unwrap()) {
            rt::violation(format!("SYNC-WINDOW {} ran its closure outside the call", name));
        }
        op
    }

    /// Returns (op, accepted)
    pub fn try_sync(&self, o: &Obj, name: &str, body: Body) -> (OpId, bool) {
        let rec = self.rec.clone();
        let op = rec.inv(name, o.id(), Kind::TrySync);
        let nm = name.to_string();
        let borrowed = Box::new(CANARY ^ op as u64);
        let bref: &u64 = &borrowed;
        let waits_before = rt::blocking_waits();
        let prev_note = rt::note(&format!("in:try_sync {}", name));
        let res = match o {
            Obj::Raw(q, st) => {
                let rec2 = rec.clone();
                sched().try_sync(q, || {
                    body.run_sync(&rec2, op, st, &nm);
                    *bref
                })
            }
            Obj::D(d, _) => {
                let rec2 = rec.clone();
                d.try_sync(|p| {
                    p.check(&nm);
                    let st = p.st.clone();
                    body.run_sync(&rec2, op, &st, &nm);
                    p.log.push(op);
                    *bref
                })
            }
        };
        let waits_after = rt::blocking_waits();
        rt::note(&prev_note);
        rec.set_accepted(op, res.is_ok());
        rec.ret(op);
        drop(borrowed);
        let r = rec.get(op);
        if waits_after != waits_before && body.bgate.is_none() && body.action.is_none() {
            rt::violation(format!("TRY-BLOCKED {} performed {} blocking wait(s) inside the call", name, waits_after - waits_before));
        }
        match res {
            Ok(token) => {
                rt::witness("try_sync:Ok");
                if token != CANARY ^ op as u64 {
                    rt::violation(format!("SYNC-RESULT {} returned a value that is not its own closure's", name));
                }
                if r.starts.len() != 1 || r.ends.len() != 1 {
                    rt::violation(format!("SYNC-ONCE {} returned Ok but its closure ran {} times", name, r.starts.len()));
                }
            }
            Err(_) => {
                rt::witness("try_sync:Busy");
                if !r.starts.is_empty() {
                    rt::violation(format!("HALF-RUN {} returned Busy but its closure ran", name));
                }
            }
        }
        (op, res.is_ok())
    }

    /// Schedules a future_desync; the returned handle is used to await / sync / drop the result
    pub fn future_desync(&self, o: &Obj, name: &str, body: Body) -> FdHandle {
        let rec = self.rec.clone();
        let op = rec.inv(name, o.id(), Kind::FutureDesync);
        let nm = name.to_string();
        let token = CANARY ^ op as u64;
        let fut = match o {
            Obj::Raw(q, st) => {
                let (rec2, st) = (rec.clone(), st.clone());
                sched().future_desync(q, move || {
                    rec2.closure_called(op, &st);
                    async move {
                        run_async(body, rec2, op, st, nm).await;
                        token
                    }
                })
            }
            Obj::D(d, _) => {
                let rec2 = rec.clone();
                d.future_desync(move |p| {
                    rec2.closure_called(op, &p.st);
                    let (st0, nm0) = (p.st.clone(), nm.clone());
                    DropTouch::new(
                        async move {
                            p.check(&nm);
                            let st = p.st.clone();
                            run_async(body, rec2, op, st.clone(), nm).await;
                            if st.dead.load(AO::SeqCst) == 0 {
                                p.log.push(op);
                            }
                            token
                        },
                        &st0,
                        &nm0,
                    )
                    .boxed()
                })
            }
        };
        rec.ret(op);
        FdHandle { rec, op, name: name.to_string(), fut: Some(fut), token }
    }

    /// `after`: runs once `gate` has opened
    pub fn after(&self, o: &Obj, name: &str, gate: &Gate, body: Body) -> AfterHandle {
        let rec = self.rec.clone();
        let op = rec.inv(name, o.id(), Kind::After);
        let nm = name.to_string();
        let token = CANARY ^ op as u64;
        let g = gate.clone();
        let fut: BoxFuture<'static, Result<u64, futures::channel::oneshot::Canceled>> = match o {
            Obj::Raw(q, st) => {
                let (rec2, st) = (rec.clone(), st.clone());
                sched().after(q, g, move |_| {
                    body.run_sync(&rec2, op, &st, &nm);
                    token
                })
                .boxed()
            }
            Obj::D(d, _) => {
                let rec2 = rec.clone();
                d.after(g, move |p, _| {
                    p.check(&nm);
                    let st = p.st.clone();
                    body.run_sync(&rec2, op, &st, &nm);
                    p.log.push(op);
                    token
                })
                .boxed()
            }
        };
        rec.ret(op);
        AfterHandle { rec, op, name: name.to_string(), fut: Some(fut), token }
    }

    /// future_sync on a raw queue ('static data) or a Desync (borrows the object for the future's life)
    pub fn future_sync<'a>(&self, o: &'a Obj, name: &str, body: Body) -> FsHandle<'a> {
        let rec = self.rec.clone();
        let op = rec.inv(name, o.id(), Kind::FutureSync);
        let nm = name.to_string();
        let token = CANARY ^ op as u64;
        let fut: BoxFuture<'a, Result<u64, futures::channel::oneshot::Canceled>> = match o {
            Obj::Raw(q, st) => {
                let (rec2, st) = (rec.clone(), st.clone());
                // (no destructor probe here: at the scheduler level SyncFuture drops the user's future after it has released the
                // queue; nothing borrowed from a Desync is involved, and the properties' span ends when the future completes)
                sched().future_sync(q, move || {
                    rec2.closure_called(op, &st);
                    async move {
                        run_async(body, rec2, op, st, nm).await;
                        token
                    }
                })
                .boxed()
            }
            Obj::D(d, _) => {
                let rec2 = rec.clone();
                d.future_sync(move |p| {
                    rec2.closure_called(op, &p.st);
                    let (st0, nm0) = (p.st.clone(), nm.clone());
                    DropTouch::new(
                        async move {
                            p.check(&nm);
                            let st = p.st.clone();
                            run_async(body, rec2, op, st, nm).await;
                            p.log.push(op);
                            token
                        },
                        &st0,
                        &nm0,
                    )
                    .boxed()
                })
                .boxed()
            }
        };
        rec.ret(op);
        FsHandle { rec, op, name: name.to_string(), fut: Some(fut), token }
    }

    /// Saturated start (`sat=1` in the cfg): before the scenario proper, every pool thread is pinned by a blocking job and a
    /// stale entry is left in the schedule (a queue scheduled and then run by its caller); an environment thread releases the
    /// pool threads at some later, explored, moment.  Every property tolerates a pool that is busy for a while, so this is a
    /// legal environment for every scenario.
    pub fn prelude(self: &Arc<Self>, cfg: &Cfg) {
        set_inline_wakers(cfg.opt("inl", 0) == 1);
        if cfg.opt("sw", 0) == 1 {
            self.sw_pool.store(cfg.pool(), AO::SeqCst);
            self.sw.store(true, AO::SeqCst);
            // (not combined with the saturated start: the harvest needs a pool thread or the caller to run the operation)
            return;
        }
        if cfg.opt("sat", 0) != 1 {
            return;
        }
        let pool = cfg.pool();
        let mut bgs = vec![];
        for i in 0..pool {
            let bq = self.raw();
            let bg = BGate::new();
            self.desync(&bq, &format!("PRE-pin{}", i), Body::blocking(&bg));
            self.pre_objs.lock().unwrap().push(bq);
            bgs.push(bg);
        }
        rt::quiesce();
        let a = self.raw();
        self.desync(&a, "PRE-A", Body::plain());
        self.sync(&a, "PRE-SA", Body::plain());
        self.pre_objs.lock().unwrap().push(a);
        self.pre_env.lock().unwrap().push(spawn(move || {
            for bg in &bgs {
                bg.open();
            }
        }));
    }

    fn end_prelude(&self) {
        let hs: Vec<_> = std::mem::take(&mut *self.pre_env.lock().unwrap());
        for h in hs {
            join(h, "prelude-env");
        }
        let objs: Vec<_> = std::mem::take(&mut *self.pre_objs.lock().unwrap());
        for o in &objs {
            expect_idle(o);
        }
    }

    /// Universal end-state oracles (call after the last `quiesce`)
    pub fn check_quiet(&self) {
        self.end_prelude();
        self.rec.check_once();
        self.rec.check_order();
        let objs = self.objs.lock().unwrap().clone();
        for st in &objs {
            if st.occupancy() != 0 {
                rt::violation(format!("UNFINISHED object {} still has an operation inside at quiescence", st.id));
            }
        }
    }
}

/// "nothing queued or running": the Debug text of a raw queue
pub fn queue_is_idle_empty(q: &Arc<JobQueue>) -> bool {
    format!("{:?}", q) == "JobQueue: State: Idle, Pending: 0"
}

pub fn expect_idle(o: &Obj) {
    match o {
        Obj::Raw(q, _) => {
            if !queue_is_idle_empty(q) {
                rt::violation(format!("NOT-QUIET at quiescence queue {} is '{:?}'", o.id(), q));
            }
        }
        Obj::D(d, _) => {
            if d.try_sync(|_| ()).is_err() {
                rt::violation(format!("NOT-QUIET at quiescence try_sync on object {} reports Busy", o.id()));
            }
        }
    }
}

pub struct FdHandle {
    pub rec: Arc<Rec>,
    pub op: OpId,
    pub name: String,
    pub fut: Option<scheduler::SchedulerFuture<u64>>,
    pub token: u64,
}

fn check_result(rec: &Rec, op: OpId, name: &str, token: u64, r: Result<u64, futures::channel::oneshot::Canceled>) {
    match r {
        Ok(v) if v == token => rec.resolved(op),
        Ok(_) => rt::violation(format!("FUTURE-RESULT {} resolved to another operation's value", name)),
        Err(_) => rt::violation(format!("FUTURE-RESULT {} resolved to Canceled although its operation was not cancelled", name)),
    }
}

impl FdHandle {
    pub fn wait(mut self) {
        let f = self.fut.take().unwrap();
        let prev_note = rt::note(&format!("in:await-fd {}", self.name));
        let r = block_on(f);
        rt::note(&prev_note);
        check_result(&self.rec, self.op, &self.name, self.token, r);
    }
    /// polls once with a throw-away waker (as a task that then hands the future to another task would), then awaits
    /// with the real one: the task that awaits last must be the one that is woken
    pub fn wait_swapped(mut self) {
        let mut f = Box::pin(self.fut.take().unwrap());
        let (w, _c) = counting_waker();
        let mut cx = Context::from_waker(&w);
        let first = f.as_mut().poll(&mut cx);
        let prev_note = rt::note(&format!("in:await-fd(swapped) {}", self.name));
        let r = match first {
            Poll::Ready(r) => r,
            Poll::Pending => {
                vthread::yield_now();
                block_on(f)
            }
        };
        rt::note(&prev_note);
        check_result(&self.rec, self.op, &self.name, self.token, r);
    }
    pub fn sync(mut self) {
        let f = self.fut.take().unwrap();
        let prev_note = rt::note(&format!("in:fd.sync {}", self.name));
        let r = f.sync();
        rt::note(&prev_note);
        check_result(&self.rec, self.op, &self.name, self.token, r);
    }
    pub fn detach(mut self) {
        self.fut.take().unwrap().detach();
    }
    /// awaits without judging the result (the operation is expected to panic)
    pub fn wait_any(mut self) {
        let f = self.fut.take().unwrap();
        let _ = block_on(f);
    }
    /// polls `k` times with a waker that only counts, then drops the future
    pub fn poll_then_drop(self, k: usize) {
        self.poll_then(k, || ())
    }

    /// polls `k` times, runs `between`, opens a scheduling point, then drops the future
    pub fn poll_then(mut self, k: usize, between: impl FnOnce()) {
        let mut f = Box::pin(self.fut.take().unwrap());
        let (w, _c) = counting_waker();
        let mut cx = Context::from_waker(&w);
        for _ in 0..k {
            if let Poll::Ready(r) = f.as_mut().poll(&mut cx) {
                check_result(&self.rec, self.op, &self.name, self.token, r);
                return;
            }
            vthread::yield_now();
        }
        between();
        vthread::yield_now();
        drop(f);
    }
    pub fn take(mut self) -> scheduler::SchedulerFuture<u64> {
        self.fut.take().unwrap()
    }
}

pub struct AfterHandle {
    pub rec: Arc<Rec>,
    pub op: OpId,
    pub name: String,
    pub fut: Option<BoxFuture<'static, Result<u64, futures::channel::oneshot::Canceled>>>,
    pub token: u64,
}

impl AfterHandle {
    pub fn wait(mut self) {
        let prev_note = rt::note(&format!("in:await-after {}", self.name));
        let r = block_on(self.fut.take().unwrap());
        rt::note(&prev_note);
        check_result(&self.rec, self.op, &self.name, self.token, r);
    }
    pub fn detach(mut self) {
        drop(self.fut.take());
    }
}

pub struct FsHandle<'a> {
    pub rec: Arc<Rec>,
    pub op: OpId,
    pub name: String,
    pub fut: Option<BoxFuture<'a, Result<u64, futures::channel::oneshot::Canceled>>>,
    pub token: u64,
}

impl<'a> FsHandle<'a> {
    pub fn wait(mut self) {
        let prev_note = rt::note(&format!("in:await-fs {}", self.name));
        let r = block_on(self.fut.take().unwrap());
        rt::note(&prev_note);
        check_result(&self.rec, self.op, &self.name, self.token, r);
    }
    /// polls `k` times with a counting waker then drops (cancels) the future
    pub fn poll_then_drop(mut self, k: usize) {
        self.rec.set_may_not_run(self.op);
        let mut f = self.fut.take().unwrap();
        let (w, _c) = counting_waker();
        let mut cx = Context::from_waker(&w);
        for _ in 0..k {
            if let Poll::Ready(r) = f.as_mut().poll(&mut cx) {
                check_result(&self.rec, self.op, &self.name, self.token, r);
                return;
            }
            vthread::yield_now();
        }
        drop(f);
        // once the future has been destroyed the operation must never start, and if it had
        // started it must have been destroyed with it
        let r = self.rec.get(self.op);
        if !r.starts.is_empty() && r.ends.is_empty() {
            rt::violation(format!("CANCEL {} was dropped mid-operation but its future is still alive", self.name));
        }
        self.rec.end_of_cancel(self.op);
    }
}

impl Rec {
    /// After this point a start of `op` is a violation (cancelled future_sync)
    pub fn end_of_cancel(&self, op: OpId) {
        let mut ops = self.ops.lock().unwrap();
        if ops[op].starts.is_empty() {
            // poison: any later start is reported by check_once as a start after cancellation
            ops[op].accepted = Some(false);
            ops[op].may_not_run = true;
        }
    }
}

// ------------------------------------------------------------------------------------------------
// Gates (external events)

struct FlagWaker(Arc<AtomicUsize>);
impl ArcWake for FlagWaker {
    fn wake_by_ref(a: &Arc<Self>) {
        a.0.fetch_add(1, AO::SeqCst);
    }
}

pub fn counting_waker() -> (Waker, Arc<AtomicUsize>) {
    let c = Arc::new(AtomicUsize::new(0));
    (waker(Arc::new(FlagWaker(c.clone()))), c)
}

struct GateInner {
    open: bool,
    /// clones of every waker ever registered (fired by `fire_stale`, long after they stopped mattering)
    stale: Vec<Waker>,
    /// every waker ever registered and not yet consumed (stale ones included when `keep_stale`)
    wakers: Vec<Waker>,
    polls: usize,
}

/// An external event awaited by a future-based operation.  Every state change is preceded by a
/// scheduling point, so the explorer places the wake-up at every position.
#[derive(Clone)]
pub struct Gate(Arc<StdMutex<GateInner>>, bool);

impl Gate {
    pub fn new() -> Gate {
        Gate(Arc::new(StdMutex::new(GateInner { open: false, stale: vec![], wakers: vec![], polls: 0 })), false)
    }
    /// A gate that wakes *every* waker registered by earlier polls (stale wakers fire too)
    pub fn new_keep_stale() -> Gate {
        Gate(Arc::new(StdMutex::new(GateInner { open: false, stale: vec![], wakers: vec![], polls: 0 })), true)
    }
    /// Opens the gate and wakes whoever is registered
    pub fn open(&self) {
        vthread::yield_now();
        let ws = {
            let mut g = self.0.lock().unwrap();
            g.open = true;
            std::mem::take(&mut g.wakers)
        };
        for w in ws {
            vthread::yield_now();
            w.wake();
        }
    }
    /// Wakes the registered wakers without opening (a spurious / repeated wake-up)
    pub fn poke(&self) {
        vthread::yield_now();
        let ws = {
            let g = self.0.lock().unwrap();
            g.wakers.clone()
        };
        for w in ws {
            vthread::yield_now();
            w.wake_by_ref();
        }
    }
    /// Fires every waker this gate has ever been given, including those of operations that have
    /// long completed (a stale wake-up)
    pub fn fire_stale(&self) {
        vthread::yield_now();
        let ws = { self.0.lock().unwrap().stale.clone() };
        for w in ws {
            vthread::yield_now();
            w.wake_by_ref();
        }
    }
    pub fn polls(&self) -> usize {
        self.0.lock().unwrap().polls
    }
    pub fn is_open(&self) -> bool {
        self.0.lock().unwrap().open
    }
}

impl Future for Gate {
    type Output = ();
    fn poll(self: Pin<&mut Self>, cx: &mut Context) -> Poll<()> {
        vthread::yield_now();
        let mut g = self.0.lock().unwrap();
        g.polls += 1;
        if g.open {
            Poll::Ready(())
        } else {
            if !self.1 {
                g.wakers.clear();
            }
            g.wakers.push(cx.waker().clone());
            g.stale.push(cx.waker().clone());
            Poll::Pending
        }
    }
}

/// A blocking gate: the job occupies its thread until the gate is opened
#[derive(Clone)]
pub struct BGate(Arc<(vsched::sync::Mutex<bool>, vsched::sync::Condvar)>);

impl BGate {
    pub fn new() -> BGate {
        BGate(Arc::new((vsched::sync::Mutex::new(false), vsched::sync::Condvar::new())))
    }
    pub fn open(&self) {
        *self.0 .0.lock().unwrap() = true;
        self.0 .1.notify_all();
    }
    pub fn wait(&self) {
        let mut g = self.0 .0.lock().unwrap();
        while !*g {
            g = self.0 .1.wait(g).unwrap();
        }
    }
}

// ------------------------------------------------------------------------------------------------
// Scripted input stream for pipes

pub struct ScriptInner {
    pub items: VecDeque<u32>,
    pub ended: bool,
    pub waker: Option<Waker>,
    pub polls: usize,
    /// register the waker on every poll, even one that yields an item or the end of the stream (streams may)
    pub eager_waker: bool,
    /// polls that happened after the stream had returned None (not allowed for non-fused streams)
    pub polls_after_end: usize,
    returned_end: bool,
    /// how many more times the stream wakes its own waker from inside a poll that returns Pending
    pub wake_in_poll: usize,
    pub yield_in_poll: usize,
}

pub struct ScriptedStream {
    pub inner: Arc<StdMutex<ScriptInner>>,
    pub drops: Arc<AtomicUsize>,
    /// the "channel lock" (see `StreamCtl::set_wake_locked`)
    chan_lock: Arc<vsched::sync::Mutex<()>>,
    wake_locked: Arc<std::sync::atomic::AtomicBool>,
}

#[derive(Clone)]
pub struct StreamCtl {
    pub inner: Arc<StdMutex<ScriptInner>>,
    pub drops: Arc<AtomicUsize>,
    chan_lock: Arc<vsched::sync::Mutex<()>>,
    wake_locked: Arc<std::sync::atomic::AtomicBool>,
}

pub fn scripted_stream(preloaded: &[u32]) -> (ScriptedStream, StreamCtl) {
    let inner = Arc::new(StdMutex::new(ScriptInner { items: preloaded.iter().cloned().collect(), ended: false, waker: None, polls: 0, eager_waker: false, polls_after_end: 0, returned_end: false, wake_in_poll: 0, yield_in_poll: 0 }));
    let drops = Arc::new(AtomicUsize::new(0));
    let chan_lock = Arc::new(vsched::sync::Mutex::new(()));
    let wake_locked = Arc::new(std::sync::atomic::AtomicBool::new(false));
    (ScriptedStream { inner: inner.clone(), drops: drops.clone(), chan_lock: chan_lock.clone(), wake_locked: wake_locked.clone() }, StreamCtl { inner, drops, chan_lock, wake_locked })
}

impl Drop for ScriptedStream {
    fn drop(&mut self) {
        if self.wake_locked.load(AO::SeqCst) {
            // the receiving end of a channel unregisters itself under the channel's lock
            let _g = self.chan_lock.lock().unwrap();
            self.drops.fetch_add(1, AO::SeqCst);
        } else {
            self.drops.fetch_add(1, AO::SeqCst);
        }
    }
}

impl futures::Stream for ScriptedStream {
    type Item = u32;
    fn poll_next(self: Pin<&mut Self>, cx: &mut Context) -> Poll<Option<u32>> {
        vthread::yield_now();
        let mut g = self.inner.lock().unwrap();
        g.polls += 1;
        if g.returned_end {
            g.polls_after_end += 1;
        }
        if g.eager_waker {
            g.waker = Some(cx.waker().clone());
        }
        if g.yield_in_poll > 0 && !g.returned_end {
            // a cooperative yield (budget exhausted): wake the caller, register nothing, say Pending although items may be ready
            g.yield_in_poll -= 1;
            drop(g);
            cx.waker().wake_by_ref();
            return Poll::Pending;
        }
        if let Some(i) = g.items.pop_front() {
            Poll::Ready(Some(i))
        } else if g.ended {
            g.returned_end = true;
            Poll::Ready(None)
        } else {
            g.waker = Some(cx.waker().clone());
            if g.wake_in_poll > 0 {
                // the event source fires synchronously, from inside poll_next (the registration stays in place)
                g.wake_in_poll -= 1;
                drop(g);
                cx.waker().wake_by_ref();
            }
            Poll::Pending
        }
    }
}

impl StreamCtl {
    /// The next `k` polls that find nothing wake the registered waker from inside `poll_next` itself
    pub fn set_wake_in_poll(&self, k: usize) {
        self.inner.lock().unwrap().wake_in_poll = k;
    }
    /// The next `k` polls are cooperative yields: they wake the polling context, register nothing and return Pending even
    /// when items are ready
    pub fn set_yield_in_poll(&self, k: usize) {
        self.inner.lock().unwrap().yield_in_poll = k;
    }
    /// From now on the producer side wakes the consumer while holding the channel's lock (the `lock(); ...; waker.wake()`
    /// pattern), and the stream's destructor takes the same lock
    pub fn set_wake_locked(&self) {
        self.wake_locked.store(true, AO::SeqCst);
    }
    pub fn push(&self, v: u32) {
        vthread::yield_now();
        let _chan = if self.wake_locked.load(AO::SeqCst) { Some(self.chan_lock.lock().unwrap()) } else { None };
        let w = {
            let mut g = self.inner.lock().unwrap();
            g.items.push_back(v);
            g.waker.take()
        };
        if let Some(w) = w {
            vthread::yield_now();
            w.wake();
        }
    }
    /// two items become visible at once
    pub fn push2(&self, a: u32, b: u32) {
        vthread::yield_now();
        let w = {
            let mut g = self.inner.lock().unwrap();
            g.items.push_back(a);
            g.items.push_back(b);
            g.waker.take()
        };
        if let Some(w) = w {
            vthread::yield_now();
            w.wake();
        }
    }
    pub fn end(&self) {
        vthread::yield_now();
        let w = {
            let mut g = self.inner.lock().unwrap();
            g.ended = true;
            g.waker.take()
        };
        if let Some(w) = w {
            vthread::yield_now();
            w.wake();
        }
    }
    pub fn stream_drops(&self) -> usize {
        self.drops.load(AO::SeqCst)
    }
    pub fn set_eager_waker(&self) {
        self.inner.lock().unwrap().eager_waker = true;
    }
    /// a late or spurious wake-up of whatever waker the stream still holds
    pub fn spurious_wake(&self) {
        vthread::yield_now();
        let w = { self.inner.lock().unwrap().waker.take() };
        if let Some(w) = w {
            vthread::yield_now();
            w.wake();
        }
    }
    pub fn polls_after_end(&self) -> usize {
        self.inner.lock().unwrap().polls_after_end
    }
    pub fn waker_registered(&self) -> bool {
        self.inner.lock().unwrap().waker.is_some()
    }
    /// forget the registered waker (the input source itself going away without an event)
    pub fn forget_waker(&self) {
        let w = self.inner.lock().unwrap().waker.take();
        drop(w);
    }
}

/// Drop counter for closures
pub struct DropCount(pub Arc<AtomicUsize>);
impl Drop for DropCount {
    fn drop(&mut self) {
        self.0.fetch_add(1, AO::SeqCst);
    }
}

pub fn spawn<F: FnOnce() + Send + 'static>(f: F) -> vthread::JoinHandle<()> {
    // stale-waker environment: its thread starts together with the scenario's first thread
    let cur = CUR_WORLD.lock().unwrap().clone();
    if let Some((exec, w)) = cur {
        if exec == rt::exec_id() {
            if let Some(w) = w.upgrade() {
                if w.sw.load(AO::SeqCst) && !w.sw_started.swap(true, AO::SeqCst) {
                    let gates: Vec<Gate> = w.sw_gates.lock().unwrap().clone();
                    if !gates.is_empty() {
                        let h = vthread::spawn(move || {
                            for g in &gates {
                                g.fire_stale();
                            }
                        });
                        w.pre_env.lock().unwrap().push(h);
                    }
                }
            }
        }
    }
    vthread::spawn(f)
}

/// Joins a harness thread; a panic in it is a violation (harness threads never panic by design
/// unless the scenario says so)
pub fn join(h: vthread::JoinHandle<()>, what: &str) {
    if h.join().is_err() {
        rt::violation(format!("THREAD-PANIC harness thread '{}' panicked", what));
    }
}

/// Reports every panic of this execution that is not a planned one
pub fn check_no_unplanned_panics() {
    check_no_unplanned_panics_except(&[]);
}

pub fn check_no_unplanned_panics_except(allowed: &[&str]) {
    for p in rt::panics() {
        if p.message.starts_with("PLANNED-PANIC") || p.message.starts_with("vsched: thread body panicked") || allowed.iter().any(|a| p.message.contains(a)) {
            continue;
        }
        rt::violation(format!("PANIC on t{}[{}]: {} @{}", p.thread, p.thread_name.as_deref().unwrap_or("-"), p.message, p.location));
    }
}
