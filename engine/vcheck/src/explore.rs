//! Preemption-bounded stateless DFS over the real code: worker (explores subtrees in-process) and
//! coordinator (hands prefixes to worker processes, aggregates, confirms violations by replay).

use crate::h::Cfg;
use crate::scenarios;
use std::collections::{BTreeMap, BTreeSet, VecDeque};
use std::io::{BufRead, BufReader, Write};
use std::process::{Child, ChildStdin, ChildStdout, Command, Stdio};
use std::sync::{Arc, Condvar, Mutex};
use std::time::{Duration, Instant};
use vsched::rt::{run_execution, ExecConfig, Outcome, Point};

pub const MAX_STEPS: usize = 20_000;

pub fn hex(p: &[u8]) -> String {
    if p.is_empty() {
        return "-".into();
    }
    p.iter().map(|b| format!("{:02x}", b)).collect()
}

pub fn unhex(s: &str) -> Vec<u8> {
    if s == "-" {
        return vec![];
    }
    (0..s.len() / 2).map(|i| u8::from_str_radix(&s[2 * i..2 * i + 2], 16).unwrap()).collect()
}

pub fn esc(s: &str) -> String {
    s.replace('\\', "\\\\").replace('\n', "\\n").replace('\t', "\\t")
}

pub fn unesc(s: &str) -> String {
    let mut out = String::new();
    let mut it = s.chars();
    while let Some(c) = it.next() {
        if c == '\\' {
            match it.next() {
                Some('n') => out.push('\n'),
                Some('t') => out.push('\t'),
                Some('\\') => out.push('\\'),
                Some(o) => out.push(o),
                None => {}
            }
        } else {
            out.push(c);
        }
    }
    out
}

fn fnv(h: &mut u64, x: u64) {
    *h ^= x;
    *h = h.wrapping_mul(0x100000001b3);
}

/// Hash of the step-by-step trace (who ran, which operation, on what, from where)
pub fn trace_hash(trace: &[Point]) -> u64 {
    let mut h = 0xcbf29ce484222325u64;
    for p in trace {
        fnv(&mut h, p.chosen as u64);
        fnv(&mut h, p.enabled as u64);
        let s = format!("{:?}", p.op);
        for b in s.bytes() {
            fnv(&mut h, b as u64);
        }
        if let Some(l) = p.loc {
            fnv(&mut h, l.line() as u64);
        }
    }
    h
}

pub fn schedule_of(trace: &[Point]) -> Vec<u8> {
    trace.iter().map(|p| p.chosen).collect()
}

pub fn failure_text(o: &Outcome) -> Option<String> {
    let mut parts = vec![];
    if let Some(f) = &o.failure {
        parts.push(f.clone());
    }
    for v in &o.violations {
        parts.push(v.clone());
    }
    if parts.is_empty() {
        None
    } else {
        Some(parts.join(" || "))
    }
}

#[derive(Clone, Debug)]
pub struct WorkerSpec {
    pub scenario: String,
    pub cfg: Cfg,
    pub bound: usize,
    pub elide: bool,
    pub try_sites: Vec<(String, u32)>,
    pub seed: u64,
    /// every virtual thread gets a fresh OS thread (no carrier reuse): needed when the subject keeps thread-local state,
    /// which would otherwise leak from one execution into the next; switched on automatically after a NONDETERMINISM report
    pub fresh: bool,
}

pub fn run_one(spec: &WorkerSpec, prefix: &[u8]) -> Outcome {
    let f = scenarios::lookup(&spec.scenario).unwrap_or_else(|| panic!("unknown scenario {}", spec.scenario));
    let cfg = spec.cfg.clone();
    let ec = ExecConfig { max_steps: MAX_STEPS, elide_unlock: spec.elide, try_sites: spec.try_sites.clone(), spurious: spec.cfg.opt("spur", 0) as u32 };
    run_execution(prefix, &ec, move || {
        crate::h::set_current_cfg(&cfg);
        f(&cfg)
    })
}

fn sites_to_string(s: &[(String, u32)]) -> String {
    if s.is_empty() {
        "-".into()
    } else {
        s.iter().map(|(f, l)| format!("{}:{}", f, l)).collect::<Vec<_>>().join(";")
    }
}

fn sites_from_string(s: &str) -> Vec<(String, u32)> {
    if s == "-" {
        return vec![];
    }
    s.split(';').map(|x| { let (f, l) = x.rsplit_once(':').unwrap(); (f.to_string(), l.parse().unwrap()) }).collect()
}

// ------------------------------------------------------------------------------------------------
// Worker

/// `vcheck worker <scenario> <cfg> <bound> <elide> <try_sites> <seed>`; protocol on stdin/stdout
pub fn worker_main(args: &[String]) {
    let spec = WorkerSpec {
        scenario: args[0].clone(),
        cfg: Cfg::parse(if args[1] == "-" { "" } else { &args[1] }),
        bound: args[2].parse().unwrap(),
        elide: args[3] == "1",
        try_sites: sites_from_string(&args[4]),
        seed: args[5].parse().unwrap(),
        fresh: std::env::var("VSCHED_FRESH_THREADS").is_ok(),
    };
    if spec.fresh {
        vsched::rt::FRESH_THREADS.store(true, std::sync::atomic::Ordering::SeqCst);
    }
    // the prefix of the execution about to run is always announced, so that a worker killed by the
    // subject (segfault, sanitizer abort) can be traced back to one schedule
    let track_cur = true;
    let stdin = std::io::stdin();
    let stdout = std::io::stdout();
    let mut abandoned = 0usize;
    for line in stdin.lock().lines() {
        let line = line.unwrap();
        let mut it = line.split_whitespace();
        match it.next() {
            Some("RUN") => {
                let budget: usize = it.next().unwrap().parse().unwrap();
                let root = unhex(it.next().unwrap());
                let mut out = stdout.lock();
                let mut stack: Vec<Vec<u8>> = vec![root];
                let (mut execs, mut steps, mut nodes, mut maxlen, mut nontrivial, mut audits) = (0u64, 0u64, 0u64, 0usize, 0u64, 0u64);
                let mut outcomes: BTreeMap<String, u64> = BTreeMap::new();
                let mut witnesses: BTreeSet<&'static str> = BTreeSet::new();
                let mut sites: BTreeSet<(String, u32)> = BTreeSet::new();
                let mut vios = 0usize;
                let mut max_threads = 0usize;
                let mut inconclusive = 0u64;
                let mut sample: Option<(Vec<u8>, String, usize)> = None;
                while let Some(prefix) = stack.pop() {
                    if track_cur {
                        writeln!(out, "CUR {}", hex(&prefix)).unwrap();
                        out.flush().unwrap();
                    }
                    let o = run_one(&spec, &prefix);
                    execs += 1;
                    steps += o.trace.len() as u64;
                    nodes += (o.trace.len().saturating_sub(prefix.len())) as u64 + if prefix.is_empty() { 1 } else { 0 };
                    maxlen = maxlen.max(o.trace.len());
                    max_threads = max_threads.max(o.threads);
                    if o.trace.iter().any(|p| p.n_options() >= 2 && (p.is_preemption() || (!p.cur_enabled && p.chosen as u32 != p.enabled.trailing_zeros()))) {
                        nontrivial += 1;
                    }
                    for w in &o.witnesses {
                        witnesses.insert(w);
                    }
                    for s in &o.new_try_sites {
                        sites.insert((s.0.to_string(), s.1));
                    }
                    let sig = if o.outcome.is_empty() { "-".to_string() } else { o.outcome.join(";") };
                    if o.failure.is_none() && o.violations.is_empty() {
                        let pre = o.trace.iter().filter(|p| p.is_preemption()).count();
                        if sample.as_ref().map(|s| pre > s.2).unwrap_or(true) {
                            sample = Some((schedule_of(&o.trace), sig.clone(), pre));
                        }
                    }
                    *outcomes.entry(sig).or_default() += 1;
                    let failed_hard = o.failure.is_some();
                    if failed_hard {
                        abandoned += 1;
                    }
                    let mut ft = failure_text(&o);
                    if let Some(f) = &o.failure {
                        if f.starts_with("MAXSTEPS") && f.contains("INCONCLUSIVE") && o.violations.is_empty() {
                            inconclusive += 1;
                            ft = None;
                        }
                    }
                    if let Some(f) = ft {
                        vios += 1;
                        if vios <= 8 {
                            writeln!(out, "VIO {} {}", hex(&schedule_of(&o.trace)), esc(&f)).unwrap();
                        }
                    } else if !failed_hard {
                        // determinism audit of ~1% of the passing schedules
                        let sched = schedule_of(&o.trace);
                        let mut h = spec.seed ^ 0x9e3779b97f4a7c15;
                        for b in &sched {
                            fnv(&mut h, *b as u64);
                        }
                        if h % 100 == 0 {
                            audits += 1;
                            let o2 = run_one(&spec, &sched);
                            if trace_hash(&o2.trace) != trace_hash(&o.trace) || failure_text(&o2).is_some() {
                                writeln!(out, "NONDET {} {}", hex(&sched), esc(&format!("{:?}", failure_text(&o2)))).unwrap();
                            }
                        }
                    }
                    // children
                    let mut preempt = 0usize;
                    for (i, p) in o.trace.iter().enumerate() {
                        if i >= prefix.len() {
                            for alt in p.options() {
                                if alt == p.chosen {
                                    continue;
                                }
                                let cost = preempt + p.cost_of(alt);
                                if cost <= spec.bound {
                                    let mut np: Vec<u8> = Vec::with_capacity(i + 1);
                                    np.extend(o.trace[..i].iter().map(|p| p.chosen));
                                    np.push(alt);
                                    stack.push(np);
                                }
                            }
                        }
                        preempt += p.deviations();
                    }
                    if execs as usize >= budget || abandoned >= 100 {
                        break;
                    }
                }
                writeln!(out, "RES {} {} {} {} {} {} {} {} {}", execs, steps, nodes, maxlen, nontrivial, vios, audits, max_threads, inconclusive).unwrap();
                for (sig, n) in outcomes.iter().take(200) {
                    writeln!(out, "OUT {} {}", n, esc(sig)).unwrap();
                }
                for w in &witnesses {
                    writeln!(out, "WIT {}", w).unwrap();
                }
                if let Some((sch, sig, pre)) = &sample {
                    writeln!(out, "SMP {} {} {}", pre, hex(sch), esc(sig)).unwrap();
                }
                for s in &sites {
                    writeln!(out, "SITE {}:{}", s.0, s.1).unwrap();
                }
                for p in &stack {
                    writeln!(out, "REM {}", hex(p)).unwrap();
                }
                writeln!(out, "END {}", if abandoned >= 100 { "recycle" } else { "ok" }).unwrap();
                out.flush().unwrap();
                if abandoned >= 100 {
                    std::process::exit(0);
                }
            }
            Some("QUIT") | None => break,
            _ => {}
        }
    }
    std::process::exit(0);
}

// ------------------------------------------------------------------------------------------------
// Coordinator

#[derive(Clone, Debug, Default)]
pub struct Stats {
    pub execs: u64,
    pub steps: u64,
    pub nodes: u64,
    pub maxlen: usize,
    pub nontrivial: u64,
    pub violations: u64,
    pub audits: u64,
    pub max_threads: usize,
    pub inconclusive: u64,
    pub outcomes: BTreeMap<String, u64>,
    pub witnesses: BTreeSet<String>,
    pub wall_s: f64,
    pub complete: bool,
    pub cap_hit: Option<String>,
    pub restarts: u32,
    /// (preemptions, schedule, outcome) of a few explored passing executions
    pub samples: Vec<(usize, String, String)>,
}

#[derive(Clone, Debug)]
pub struct Vio {
    pub schedule: Vec<u8>,
    pub text: String,
}

#[derive(Clone, Debug)]
pub struct Crash {
    pub desc: String,
    /// prefix of the execution that was running when the worker died
    pub prefix: Option<Vec<u8>>,
}

pub struct ExploreResult {
    pub stats: Stats,
    pub vios: Vec<Vio>,
    pub nondet: Vec<String>,
    pub crashed: Vec<Crash>,
    pub try_sites: Vec<(String, u32)>,
}

struct Shared {
    queue: VecDeque<Vec<u8>>,
    busy: usize,
    stats: Stats,
    vios: Vec<Vio>,
    nondet: Vec<String>,
    crashed: Vec<Crash>,
    new_sites: BTreeSet<(String, u32)>,
    stop: bool,
}

struct WorkerProc {
    child: Child,
    stdin: ChildStdin,
    stdout: BufReader<ChildStdout>,
}

fn spawn_worker(exe: &str, spec: &WorkerSpec) -> WorkerProc {
    let cfgs = spec.cfg.to_string();
    let mut child = Command::new(exe)
        .arg("worker")
        .arg(&spec.scenario)
        .arg(if cfgs.is_empty() { "-".to_string() } else { cfgs })
        .arg(spec.bound.to_string())
        .arg(if spec.elide { "1" } else { "0" })
        .arg(sites_to_string(&spec.try_sites))
        .arg(spec.seed.to_string())
        .envs(if spec.fresh { vec![("VSCHED_FRESH_THREADS", "1")] } else { vec![] })
        .stdin(Stdio::piped())
        .stdout(Stdio::piped())
        .stderr(if std::env::var("VCHECK_QUIET_WORKERS").is_ok() { Stdio::null() } else { Stdio::inherit() })
        .spawn()
        .expect("spawn worker");
    let stdin = child.stdin.take().unwrap();
    let stdout = BufReader::new(child.stdout.take().unwrap());
    WorkerProc { child, stdin, stdout }
}

pub struct Limits {
    pub workers: usize,
    pub deadline: Option<Instant>,
    pub stop_on_violation: bool,
}

pub fn n_workers() -> usize {
    std::env::var("VCHECK_WORKERS").ok().and_then(|s| s.parse().ok()).unwrap_or(16)
}

/// Explores every schedule of `spec` with at most `spec.bound` preemptions, in parallel
pub fn explore(exe: &str, spec: &WorkerSpec, limits: &Limits) -> ExploreResult {
    let mut spec = spec.clone();
    let mut restarts = 0;
    loop {
        let r = explore_once(exe, &spec, limits);
        if !r.try_sites.is_empty() && spec.elide {
            // the unlock-elision premise changed: restart with the enlarged set of try_lock sites
            let mut changed = false;
            for s in &r.try_sites {
                if !spec.try_sites.contains(s) {
                    spec.try_sites.push(s.clone());
                    changed = true;
                }
            }
            if changed {
                restarts += 1;
                continue;
            }
        }
        // a violation found on reused carrier threads must say the same on fresh OS threads (a replay always runs on fresh ones)
        let carrier_artefact = !spec.fresh
            && r.vios.first().map(|v| match replay_in_subprocess(exe, &spec, &v.schedule) {
                Some((_, Some(f))) => f != v.text,
                Some((_, None)) => true,
                None => false, // the replay process died: handled as a crash by the caller
            }).unwrap_or(false);
        if !spec.fresh && (carrier_artefact || !r.crashed.is_empty() || !r.nondet.is_empty() || r.vios.iter().any(|v| v.text.contains("NONDETERMINISM"))) {
            // state that survives from one execution to the next on a reused carrier thread (thread-locals of the subject):
            // explore again with a fresh OS thread per virtual thread, which is what the subject sees in production
            spec.fresh = true;
            restarts += 1;
            continue;
        }
        let mut r = r;
        r.stats.restarts = restarts;
        r.try_sites = spec.try_sites.clone();
        return r;
    }
}

fn explore_once(exe: &str, spec: &WorkerSpec, limits: &Limits) -> ExploreResult {
    let t0 = Instant::now();
    let shared = Arc::new((Mutex::new(Shared { queue: VecDeque::from(vec![vec![]]), busy: 0, stats: Stats::default(), vios: vec![], nondet: vec![], crashed: vec![], new_sites: BTreeSet::new(), stop: false }), Condvar::new()));
    let mut handles = vec![];
    for _ in 0..limits.workers {
        let shared = shared.clone();
        let spec = spec.clone();
        let exe = exe.to_string();
        let deadline = limits.deadline;
        let stop_on_violation = limits.stop_on_violation;
        let nworkers = limits.workers;
        handles.push(std::thread::spawn(move || {
            let mut wp: Option<WorkerProc> = None;
            loop {
                // take work
                let (item, budget) = {
                    let (m, cv) = &*shared;
                    let mut g = m.lock().unwrap();
                    loop {
                        if g.stop {
                            break (None, 0);
                        }
                        if let Some(d) = deadline {
                            if Instant::now() > d {
                                g.stop = true;
                                g.stats.cap_hit = Some("wall-clock cap".into());
                                cv.notify_all();
                                break (None, 0);
                            }
                        }
                        if let Some(it) = g.queue.pop_front() {
                            g.busy += 1;
                            let budget = if g.queue.len() < 2 * nworkers { 48 } else { 1500 };
                            break (Some(it), budget);
                        }
                        if g.busy == 0 {
                            cv.notify_all();
                            break (None, 0);
                        }
                        g = cv.wait_timeout(g, Duration::from_millis(200)).unwrap().0;
                    }
                };
                let item = match item {
                    Some(i) => i,
                    None => break,
                };
                if wp.is_none() {
                    wp = Some(spawn_worker(&exe, &spec));
                }
                let w = wp.as_mut().unwrap();
                let sent = writeln!(w.stdin, "RUN {} {}", budget, hex(&item)).and_then(|_| w.stdin.flush());
                let mut ended = false;
                let mut recycle = false;
                let mut cur: Option<String> = None;
                let mut rem: Vec<Vec<u8>> = vec![];
                let mut local = Stats::default();
                let mut lvios = vec![];
                let mut lnondet = vec![];
                let mut lsites = vec![];
                if sent.is_ok() {
                    let mut line = String::new();
                    loop {
                        line.clear();
                        match w.stdout.read_line(&mut line) {
                            Ok(0) | Err(_) => break,
                            Ok(_) => {}
                        }
                        let l = line.trim_end();
                        let (tag, rest) = l.split_once(' ').unwrap_or((l, ""));
                        match tag {
                            "CUR" => cur = Some(rest.to_string()),
                            "RES" => {
                                let v: Vec<u64> = rest.split_whitespace().map(|x| x.parse().unwrap()).collect();
                                local.execs = v[0];
                                local.steps = v[1];
                                local.nodes = v[2];
                                local.maxlen = v[3] as usize;
                                local.nontrivial = v[4];
                                local.violations = v[5];
                                local.audits = v[6];
                                local.max_threads = v[7] as usize;
                                local.inconclusive = v[8];
                            }
                            "OUT" => {
                                let (n, sig) = rest.split_once(' ').unwrap_or((rest, ""));
                                *local.outcomes.entry(unesc(sig)).or_default() += n.parse::<u64>().unwrap();
                            }
                            "WIT" => {
                                local.witnesses.insert(rest.to_string());
                            }
                            "SMP" => {
                                let mut it = rest.splitn(3, ' ');
                                let pre: usize = it.next().unwrap_or("0").parse().unwrap_or(0);
                                let sch = it.next().unwrap_or("-").to_string();
                                let sig = unesc(it.next().unwrap_or(""));
                                local.samples.push((pre, sch, sig));
                            }
                            "SITE" => {
                                let (f, ln) = rest.rsplit_once(':').unwrap();
                                lsites.push((f.to_string(), ln.parse::<u32>().unwrap()));
                            }
                            "VIO" => {
                                let (s, t) = rest.split_once(' ').unwrap_or((rest, ""));
                                lvios.push(Vio { schedule: unhex(s), text: unesc(t) });
                            }
                            "NONDET" => lnondet.push(rest.to_string()),
                            "REM" => rem.push(unhex(rest)),
                            "END" => {
                                ended = true;
                                recycle = rest == "recycle";
                                break;
                            }
                            _ => {}
                        }
                    }
                }
                let (m, cv) = &*shared;
                let mut g = m.lock().unwrap();
                g.busy -= 1;
                if ended {
                    g.stats.execs += local.execs;
                    g.stats.steps += local.steps;
                    g.stats.nodes += local.nodes;
                    g.stats.maxlen = g.stats.maxlen.max(local.maxlen);
                    g.stats.nontrivial += local.nontrivial;
                    g.stats.violations += local.violations;
                    g.stats.audits += local.audits;
                    g.stats.max_threads = g.stats.max_threads.max(local.max_threads);
                    g.stats.inconclusive += local.inconclusive;
                    for (k, v) in local.outcomes {
                        *g.stats.outcomes.entry(k).or_default() += v;
                    }
                    for w in local.witnesses {
                        g.stats.witnesses.insert(w);
                    }
                    for smp in local.samples {
                        if g.stats.samples.len() < 3 {
                            g.stats.samples.push(smp);
                        } else if let Some(min) = g.stats.samples.iter_mut().min_by_key(|x| x.0) {
                            if smp.0 > min.0 {
                                *min = smp;
                            }
                        }
                    }
                    for s in lsites {
                        g.new_sites.insert(s);
                    }
                    if !lvios.is_empty() && stop_on_violation {
                        g.stop = true;
                    }
                    if !g.new_sites.is_empty() {
                        // premise of the reduction broken: abort this pass, the caller restarts
                        g.stop = true;
                    }
                    g.vios.extend(lvios);
                    g.nondet.extend(lnondet);
                    for r in rem {
                        g.queue.push_back(r);
                    }
                } else {
                    // worker died without finishing: a crash (sanitizer report, abort, OOM)
                    let status = wp.as_mut().and_then(|w| w.child.wait().ok()).map(|s| format!("{:?}", s)).unwrap_or_default();
                    g.crashed.push(Crash { desc: format!("worker died ({}) while exploring under prefix {} (execution running: {})", status, hex(&item), cur.clone().unwrap_or("?".into())), prefix: cur.as_ref().map(|c| unhex(c)) });
                    g.stop = true;
                    wp = None;
                }
                cv.notify_all();
                drop(g);
                if recycle {
                    if let Some(mut w) = wp.take() {
                        let _ = w.child.wait();
                    }
                }
            }
            if let Some(mut w) = wp.take() {
                let _ = writeln!(w.stdin, "QUIT");
                drop(w.stdin);
                let _ = w.child.wait();
            }
        }));
    }
    for h in handles {
        h.join().unwrap();
    }
    let (m, _) = &*shared;
    let mut g = m.lock().unwrap();
    let mut stats = std::mem::take(&mut g.stats);
    stats.wall_s = t0.elapsed().as_secs_f64();
    stats.complete = g.queue.is_empty() && !g.stop && g.crashed.is_empty();
    ExploreResult { stats, vios: std::mem::take(&mut g.vios), nondet: std::mem::take(&mut g.nondet), crashed: std::mem::take(&mut g.crashed), try_sites: g.new_sites.iter().cloned().collect() }
}

/// Replays one schedule in a fresh process and returns (trace hash, failure text, rendered trace)
/// Replays a prefix in a fresh process; Some(stderr tail) if the process died abnormally (signal or sanitizer abort)
pub fn replay_dies(exe: &str, spec: &WorkerSpec, schedule: &[u8]) -> Option<String> {
    let cfgs = spec.cfg.to_string();
    let out = Command::new(exe)
        .arg("replay1")
        .arg(&spec.scenario)
        .arg(if cfgs.is_empty() { "-".to_string() } else { cfgs })
        .arg(if spec.elide { "1" } else { "0" })
        .arg(sites_to_string(&spec.try_sites))
        .arg(hex(schedule))
        .output()
        .ok()?;
    let so = String::from_utf8_lossy(&out.stdout);
    if out.status.success() && so.lines().any(|l| l.starts_with("HASH ")) {
        return None;
    }
    let se = String::from_utf8_lossy(&out.stderr);
    let tail: Vec<&str> = se.lines().take(40).collect();
    Some(format!("exit status {:?}\n{}", out.status, tail.join("\n")))
}

pub fn replay_in_subprocess(exe: &str, spec: &WorkerSpec, schedule: &[u8]) -> Option<(u64, Option<String>)> {
    let cfgs = spec.cfg.to_string();
    let out = Command::new(exe)
        .arg("replay1")
        .arg(&spec.scenario)
        .arg(if cfgs.is_empty() { "-".to_string() } else { cfgs })
        .arg(if spec.elide { "1" } else { "0" })
        .arg(sites_to_string(&spec.try_sites))
        .arg(hex(schedule))
        .output()
        .ok()?;
    let s = String::from_utf8_lossy(&out.stdout);
    let mut hash = None;
    let mut fail = None;
    for l in s.lines() {
        if let Some(r) = l.strip_prefix("HASH ") {
            hash = r.parse::<u64>().ok();
        }
        if let Some(r) = l.strip_prefix("FAIL ") {
            fail = Some(unesc(r));
        }
    }
    hash.map(|h| (h, fail))
}

/// `vcheck replay1 <scenario> <cfg> <elide> <sites> <hexschedule>`: one execution, machine readable
pub fn replay1_main(args: &[String]) {
    let spec = WorkerSpec { scenario: args[0].clone(), cfg: Cfg::parse(if args[1] == "-" { "" } else { &args[1] }), bound: 0, elide: args[2] == "1", try_sites: sites_from_string(&args[3]), seed: 0, fresh: true };
    let sched = unhex(&args[4]);
    let o = run_one(&spec, &sched);
    println!("HASH {}", trace_hash(&o.trace));
    if let Some(f) = failure_text(&o) {
        println!("FAIL {}", esc(&f));
    }
    for (i, p) in o.trace.iter().enumerate() {
        println!("STEP {}", vsched::rt::describe_point(i, p));
    }
    for p in &o.panics {
        println!("PANIC t{} {} @{}", p.thread, esc(&p.message), p.location);
    }
    use std::io::Write as _;
    std::io::stdout().flush().unwrap();
    std::process::exit(0);
}

pub fn sites_string(s: &[(String, u32)]) -> String {
    sites_to_string(s)
}
pub fn sites_parse(s: &str) -> Vec<(String, u32)> {
    sites_from_string(s)
}
