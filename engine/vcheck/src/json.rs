//! Minimal JSON value, parser and writer (no external crates are available offline for this)
use std::collections::BTreeMap;

#[derive(Clone, Debug, PartialEq)]
pub enum J {
    Null,
    Bool(bool),
    Num(f64),
    Str(String),
    Arr(Vec<J>),
    Obj(BTreeMap<String, J>),
}

impl J {
    pub fn get(&self, k: &str) -> Option<&J> {
        match self {
            J::Obj(m) => m.get(k),
            _ => None,
        }
    }
    pub fn str(&self) -> Option<&str> {
        match self {
            J::Str(s) => Some(s),
            _ => None,
        }
    }
    pub fn arr(&self) -> &[J] {
        match self {
            J::Arr(a) => a,
            _ => &[],
        }
    }
    pub fn num(&self) -> Option<f64> {
        match self {
            J::Num(n) => Some(*n),
            _ => None,
        }
    }
}

pub fn esc(s: &str) -> String {
    let mut o = String::with_capacity(s.len() + 2);
    for c in s.chars() {
        match c {
            '"' => o.push_str("\\\""),
            '\\' => o.push_str("\\\\"),
            '\n' => o.push_str("\\n"),
            '\r' => o.push_str("\\r"),
            '\t' => o.push_str("\\t"),
            c if (c as u32) < 0x20 => o.push_str(&format!("\\u{:04x}", c as u32)),
            c => o.push(c),
        }
    }
    o
}

pub fn write(j: &J, out: &mut String, indent: usize) {
    let pad = " ".repeat(indent);
    match j {
        J::Null => out.push_str("null"),
        J::Bool(b) => out.push_str(if *b { "true" } else { "false" }),
        J::Num(n) => {
            if n.fract() == 0.0 && n.abs() < 9e15 {
                out.push_str(&format!("{}", *n as i64))
            } else {
                out.push_str(&format!("{}", n))
            }
        }
        J::Str(s) => {
            out.push('"');
            out.push_str(&esc(s));
            out.push('"');
        }
        J::Arr(a) => {
            if a.is_empty() {
                out.push_str("[]");
                return;
            }
            out.push_str("[\n");
            for (i, x) in a.iter().enumerate() {
                out.push_str(&pad);
                out.push(' ');
                write(x, out, indent + 1);
                if i + 1 < a.len() {
                    out.push(',');
                }
                out.push('\n');
            }
            out.push_str(&pad);
            out.push(']');
        }
        J::Obj(m) => {
            if m.is_empty() {
                out.push_str("{}");
                return;
            }
            out.push_str("{\n");
            let n = m.len();
            for (i, (k, v)) in m.iter().enumerate() {
                out.push_str(&pad);
                out.push(' ');
                out.push('"');
                out.push_str(&esc(k));
                out.push_str("\": ");
                write(v, out, indent + 1);
                if i + 1 < n {
                    out.push(',');
                }
                out.push('\n');
            }
            out.push_str(&pad);
            out.push('}');
        }
    }
}

pub fn to_string(j: &J) -> String {
    let mut s = String::new();
    write(j, &mut s, 0);
    s.push('\n');
    s
}

pub fn obj(pairs: Vec<(&str, J)>) -> J {
    J::Obj(pairs.into_iter().map(|(k, v)| (k.to_string(), v)).collect())
}
pub fn s(x: &str) -> J {
    J::Str(x.to_string())
}
pub fn n(x: f64) -> J {
    J::Num(x)
}

pub fn parse(text: &str) -> Result<J, String> {
    let b: Vec<char> = text.chars().collect();
    let mut p = 0usize;
    let v = pv(&b, &mut p)?;
    ws(&b, &mut p);
    if p != b.len() {
        return Err(format!("trailing data at {}", p));
    }
    Ok(v)
}

fn ws(b: &[char], p: &mut usize) {
    while *p < b.len() && b[*p].is_whitespace() {
        *p += 1;
    }
}

fn pv(b: &[char], p: &mut usize) -> Result<J, String> {
    ws(b, p);
    if *p >= b.len() {
        return Err("eof".into());
    }
    match b[*p] {
        '{' => {
            *p += 1;
            let mut m = BTreeMap::new();
            ws(b, p);
            if b[*p] == '}' {
                *p += 1;
                return Ok(J::Obj(m));
            }
            loop {
                ws(b, p);
                let k = match pv(b, p)? {
                    J::Str(s) => s,
                    _ => return Err("key".into()),
                };
                ws(b, p);
                if b[*p] != ':' {
                    return Err("colon".into());
                }
                *p += 1;
                let v = pv(b, p)?;
                m.insert(k, v);
                ws(b, p);
                match b[*p] {
                    ',' => *p += 1,
                    '}' => {
                        *p += 1;
                        return Ok(J::Obj(m));
                    }
                    _ => return Err("obj sep".into()),
                }
            }
        }
        '[' => {
            *p += 1;
            let mut a = vec![];
            ws(b, p);
            if b[*p] == ']' {
                *p += 1;
                return Ok(J::Arr(a));
            }
            loop {
                a.push(pv(b, p)?);
                ws(b, p);
                match b[*p] {
                    ',' => *p += 1,
                    ']' => {
                        *p += 1;
                        return Ok(J::Arr(a));
                    }
                    _ => return Err("arr sep".into()),
                }
            }
        }
        '"' => {
            *p += 1;
            let mut s = String::new();
            while *p < b.len() && b[*p] != '"' {
                if b[*p] == '\\' {
                    *p += 1;
                    match b[*p] {
                        'n' => s.push('\n'),
                        't' => s.push('\t'),
                        'r' => s.push('\r'),
                        'u' => {
                            let h: String = b[*p + 1..*p + 5].iter().collect();
                            s.push(char::from_u32(u32::from_str_radix(&h, 16).map_err(|e| e.to_string())?).unwrap_or('?'));
                            *p += 4;
                        }
                        c => s.push(c),
                    }
                } else {
                    s.push(b[*p]);
                }
                *p += 1;
            }
            *p += 1;
            Ok(J::Str(s))
        }
        't' => {
            *p += 4;
            Ok(J::Bool(true))
        }
        'f' => {
            *p += 5;
            Ok(J::Bool(false))
        }
        'n' => {
            *p += 4;
            Ok(J::Null)
        }
        _ => {
            let st = *p;
            while *p < b.len() && (b[*p].is_ascii_digit() || "+-.eE".contains(b[*p])) {
                *p += 1;
            }
            let t: String = b[st..*p].iter().collect();
            t.parse::<f64>().map(J::Num).map_err(|e| format!("num {}: {}", t, e))
        }
    }
}
