mod check;
mod explore;
mod h;
mod json;
mod props;
mod scenarios;
mod selftest;

use explore::*;
use h::Cfg;

fn exe() -> String {
    std::env::current_exe().unwrap().to_string_lossy().to_string()
}

/// `vcheck explore <scenario> <cfg> <maxbound> [elide=1]` : developer tool, prints counts per bound
fn dev_explore(args: &[String]) {
    let scenario = args[0].clone();
    let cfg = Cfg::parse(args.get(1).map(|s| s.as_str()).unwrap_or(""));
    let maxb: usize = args.get(2).and_then(|s| s.parse().ok()).unwrap_or(2);
    let elide = args.get(3).map(|s| s != "0").unwrap_or(true);
    let mut sites = vec![];
    for b in 0..=maxb {
        let spec = WorkerSpec { scenario: scenario.clone(), cfg: cfg.clone(), bound: b, elide, try_sites: sites.clone(), seed: 1, fresh: false };
        let r = explore(&exe(), &spec, &Limits { workers: n_workers(), deadline: None, stop_on_violation: false });
        sites = r.try_sites.clone();
        let s = &r.stats;
        println!("{} [{}] PB={}: execs={} nodes={} steps={} maxlen={} threads={} nontrivial={} outcomes={} vios={} audits={} inconclusive={} restarts={} complete={} {:.2}s ({:.0}/s)",
            scenario, cfg.to_string(), b, s.execs, s.nodes, s.steps, s.maxlen, s.max_threads, s.nontrivial, s.outcomes.len(), s.violations, s.audits, s.inconclusive, s.restarts, s.complete, s.wall_s, s.execs as f64 / s.wall_s);
        let mut kinds: std::collections::BTreeMap<String, (u64, Vec<u8>)> = Default::default();
        for v in &r.vios {
            let k: String = v.text.chars().take(160).collect();
            let e = kinds.entry(k).or_insert((0, v.schedule.clone()));
            e.0 += 1;
        }
        for (k, (n, s)) in kinds.iter().take(6) {
            println!("   {} x {}\n      schedule {}", n, k, hex(s));
        }
        for n in &r.nondet { println!("   NONDET {}", n); }
        for c in &r.crashed { println!("   CRASH {}", c.desc); }
        println!("   witnesses: {:?}", s.witnesses);
    }
    println!("try sites: {:?}", sites);
}

fn main() {
    let args: Vec<String> = std::env::args().skip(1).collect();
    if let Ok(v) = std::env::var("VCHECK_SPIN") { vsched::rt::SPIN.store(v.parse().unwrap(), std::sync::atomic::Ordering::Relaxed); }
    match args.first().map(|s| s.as_str()) {
        Some("worker") => worker_main(&args[1..]),
        Some("replay1") => {
            // a single execution: always on fresh OS threads (thread-local state of the subject starts empty, as in production)
            vsched::rt::FRESH_THREADS.store(true, std::sync::atomic::Ordering::SeqCst);
            replay1_main(&args[1..])
        }
        Some("explore") => dev_explore(&args[1..]),
        Some("check") => {
            let rc = check::check_main(&args[1..], &exe());
            std::process::exit(rc)
        }
        Some("replay") => std::process::exit(check::replay_main(&args[1], &exe())),
        Some("selftest") => std::process::exit(selftest::selftest_main(&exe(), args.iter().any(|a| a == "thorough"))),
        Some("plan") if args.len() > 1 => {
            // `vcheck plan Cxx`: one line per instance of the property's plan (scenario, cfg, quick bound, thorough bound)
            for i in props::plan(&args[1]) {
                println!("{} {} {} {}", i.scenario, i.cfg.to_string(), i.quick.map(|b| b.to_string()).unwrap_or("-".into()), i.thorough);
            }
        }
        Some("plan") => {
            for p in props::ALL_PROPS {
                let pl = props::plan(p);
                println!("{}: {} instances ({} in quick)", p, pl.len(), pl.iter().filter(|i| i.quick.is_some()).count());
            }
        }
        Some("list") => {
            for (n, _) in scenarios::all() {
                println!("{}", n);
            }
        }
        _ => {
            eprintln!("usage: vcheck explore|worker|replay1|list ...");
            std::process::exit(2);
        }
    }
}
