#!/usr/bin/env python3
"""Creates mutants/*.patch from (file, old, new) edits against /repo HEAD (working tree must be clean)."""
import subprocess,sys,os
M={}
def mut(name, prop, path, old, new, note):
    M[name]=(prop,path,old,new,note)
mut("m01_claim_waitingforwake","C01","src/scheduler/core.rs",
"""            QueueState::Pending |
            QueueState::Idle    => {
                // Move the queue to the running state""",
"""            QueueState::Pending |
            QueueState::WaitingForWake |
            QueueState::Idle    => {
                // Move the queue to the running state""","sync waiter steals a queue whose future op is suspended: runs later ops while the suspended op is still in progress")
mut("m02_wakequeue_running_idle","C01","src/scheduler/wake_queue.rs",
"""                QueueState::Running             => queue_core.state = QueueState::AwokenWhileRunning,""",
"""                QueueState::Running             => queue_core.state = QueueState::Idle,""","wake during poll marks a running queue idle: a second runner can start")
mut("m03_requeue_back","C02","src/scheduler/job_queue.rs",
"""        core.queue.push_front(job);""","""        core.queue.push_back(job);""","pending future job goes to the back: later ops overtake it")
mut("m04_syncdrain_front","C02","src/scheduler/desync_scheduler.rs",
"""        queue.core.lock().expect("JobQueue core lock").queue.push_back(Box::new(unsafe_result_job));""",
"""        queue.core.lock().expect("JobQueue core lock").queue.push_front(Box::new(unsafe_result_job));""","draining sync runs its own closure before the jobs queued ahead of it")
mut("m05_no_reschedule_after_immediate","C03","src/scheduler/desync_scheduler.rs",
"""        queue.core.lock().expect("JobQueue core lock").state = QueueState::Idle;

        // Not running any more
        self.reschedule_queue(queue);""",
"""        queue.core.lock().expect("JobQueue core lock").state = QueueState::Idle;

        // Not running any more""","work scheduled during an immediate sync is never rescheduled")
mut("m06_unsafejob_notify_before_flag","C04","src/scheduler/unsafe_job.rs",
"""            (*is_finished.lock().unwrap()) = true;
            on_finish.notify_all();""",
"""            on_finish.notify_all();
            (*is_finished.lock().unwrap()) = true;""","completion notified before the flag is set: waiter can sleep for ever")
mut("m07_drop_try_sync","C05","src/desync.rs",
"""            // Thread is not panicking
            sync(&self.queue, move || {
                let data = data.0;
                mem::drop(unsafe { Box::from_raw(data) });
            });""",
"""            // Thread is not panicking
            let data2 = DataRef::<T>(data.0);
            if try_sync(&self.queue, move || {
                let data = data.0;
                mem::drop(unsafe { Box::from_raw(data) });
            }).is_err() {
                desync(&self.queue, move || {
                    let data = data2;
                    mem::drop(unsafe { Box::from_raw(data.0) });
                });
            }""","drop no longer waits when the queue is busy")
mut("m08_drain_drops_awoken_latch","C06","src/scheduler/job_queue.rs",
"""                            QueueState::Running             => QueueState::WaitingForWake,
                            QueueState::AwokenWhileRunning  => QueueState::Running,
                            other                           => other""",
"""                            QueueState::Running             => QueueState::WaitingForWake,
                            QueueState::AwokenWhileRunning  => QueueState::WaitingForWake,
                            other                           => other""","a wake-up that arrives during the poll is forgotten when the pool thread parks the queue")
mut("m09_wakethread_no_state","C06","src/scheduler/wake_thread.rs",
"""                QueueState::WaitingForUnpark    => queue_core.state = QueueState::Running,
                QueueState::Running             => queue_core.state = QueueState::AwokenWhileRunning,""",
"""                QueueState::WaitingForUnpark    => queue_core.state = QueueState::Running,
                QueueState::Running             => queue_core.state = QueueState::Running,""","wake during the poll inside a sync drain is lost: thread parks for ever")
mut("m10_signal_waker_first","C07","src/scheduler/scheduler_future.rs",
"""        let waker = {
            let mut future_result = self.0.lock().expect("Scheduler future result");

            // Set the result
            future_result.result = FutureResultState::Some(Ok(result));

            // Retrieve the waker
            future_result.waker.take()
        };

        // If we retrieved a waker from the result, wake it up
        waker.map(|waker| waker.wake());""",
"""        // Retrieve the waker
        let waker = { self.0.lock().expect("Scheduler future result").waker.take() };

        // If we retrieved a waker from the result, wake it up
        waker.map(|waker| waker.wake());

        // Set the result
        self.0.lock().expect("Scheduler future result").result = FutureResultState::Some(Ok(result));""","the awaiting task is woken before the result is stored: it can re-register after the wake and sleep for ever")
mut("m11_fsync_slot_not_held","C08","src/scheduler/desync_scheduler.rs",
"""                // Wait for the job to complete (if cancelled, the SyncFuture was dropped, which means it's safe to continue)
                done_recv.await.ok();
                send.signal(());""",
"""                // Signal completion
                mem::drop(done_recv);
                send.signal(());""","the queue slot of a future_sync is released as soon as it starts: later ops overlap it")
mut("m12_try_sync_pending_available","C09","src/scheduler/desync_scheduler.rs",
"""                QueueState::Panicked            => RunAction::Panic,
                QueueState::Pending             => RunAction::Busy,
                QueueState::Idle                => { 
                    if core.queue.len() == 0 {""",
"""                QueueState::Panicked            => RunAction::Panic,
                QueueState::Pending if core.queue.len() == 0 => { core.state = QueueState::Running; RunAction::Immediate },
                QueueState::Pending             => RunAction::Busy,
                QueueState::Idle                => { 
                    if core.queue.len() == 0 {""","(blunt control) try_sync runs on a pending-but-empty queue")
mut("m13_spawn_off_by_one","C10","src/scheduler/core.rs",
"""        if threads.len() < max_threads {""","""        if threads.len() + 1 < max_threads {""","pool never reaches its maximum: with k objects blocked and maximum k+1 others starve")
mut("m14_pipe_in_one_item_per_poll","C11","src/pipe.rs",
"""                    Poll::Ready(Some(next)) => {
                        let process_future = (&mut *process.lock().unwrap())(core, next);
                        process_future.await;
                    }""",
"""                    Poll::Ready(Some(next)) => {
                        let process_future = (&mut *process.lock().unwrap())(core, next);
                        process_future.await;
                        return true;
                    }""","pipe_in stops after one item per wake-up: items that arrived in a burst wait for the next event")
mut("m15_pipe_backpressure_not_released_on_pending","C12","src/pipe.rs",
"""                // Stream not ready
                let notify_backpressure = core.backpressure_release_notify.take();
                core.notify = Some(context.waker().clone());

                (Poll::Pending, notify_backpressure)""",
"""                // Stream not ready
                core.notify = Some(context.waker().clone());

                (Poll::Pending, None)""","consumer polling between 'buffer full' and 'register for release' no longer releases the producer")
mut("m16_suspend_signals_before_queueing","C13","src/scheduler/desync_scheduler.rs",
"""        // Queue a future (we never await it though)
        self.future_desync(queue, move || {
            // Create a channel for resuming the queue
            let (resume, wait_for_resume)   = oneshot::channel();

            // Create a resumer for the caller to use to restart the future
            let queue_resumer = QueueResumer { resume };

            // Tell the target that this queue is suspended
            notify_finished_suspending.signal(queue_resumer);

            // Wait for the queue to resume
            wait_for_resume
        }).detach();""",
"""        // Create a channel for resuming the queue
        let (resume, wait_for_resume)   = oneshot::channel();

        // Create a resumer for the caller to use to restart the future
        let queue_resumer = QueueResumer { resume };

        // Tell the target that this queue is suspended
        notify_finished_suspending.signal(queue_resumer);

        // Queue a future (we never await it though)
        self.future_desync(queue, move || {
            // Wait for the queue to resume
            wait_for_resume
        }).detach();""","suspend resolves before earlier work has completed")
mut("m17_sync_immediate_no_panic_guard","C15","src/scheduler/desync_scheduler.rs",
"""        debug_assert!(queue.core.lock().expect("JobQueue core lock").state.is_running());

        // Set the queue as active
        let _active = ActiveQueue { queue: &*queue };

        // Call the function to get the result
        let result = job();""",
"""        debug_assert!(queue.core.lock().expect("JobQueue core lock").state.is_running());

        // Call the function to get the result
        let result = job();""","a panic in an immediate sync leaves the queue Running instead of Panicked: later calls block silently")
mut("m18_pipe_drop_no_recheck","C16","src/pipe.rs",
"""                            // If the output stream was dropped while we were polling, it has already taken the notifier and nothing will wake us to finish closing
                            if stream_core.closed { return false; }
""","","revert of the F4 repair")
mut("m19_spawn_limit_le","C17","src/scheduler/core.rs",
"""        if threads.len() < max_threads {""","""        if threads.len() <= max_threads {""","pool grows to maximum+1")
mut("m20_sync_background_early_ready","C14","src/scheduler/desync_scheduler.rs",
"""            // Run the job
            let actual_result = job();

            // Set the result and notify the waiting thread
            *result.lock().expect("Background job result lock") = Some(actual_result);""",
"""            // Run the job
            let actual_result = job();

            // Set the result and notify the waiting thread
            *result.lock().expect("Background job result lock") = Some(actual_result);
            mem::drop(result);""","(placeholder, behaviour preserving)")
mut("m21_next_to_run_no_state_check","C01","src/scheduler/core.rs",
"""                _ => { 
                    // Move to the next queue in the schedule
                }""",
"""                QueueState::Idle => {
                    if core.queue.len() > 0 { core.state = QueueState::Running; return Some(q.clone()); }
                }

                QueueState::Running if core.queue.len() > 1 => {
                    // Queue has lots to do, help it out
                    return Some(q.clone());
                }

                _ => { 
                    // Move to the next queue in the schedule
                }""","a stale schedule entry for a queue that is running elsewhere is run by a pool thread too")
mut("m22_reschedule_skips_notify","C04","src/scheduler/core.rs",
"""        for (cond_var, waiting) in to_notify {
            let _waiting = waiting.lock();
            cond_var.notify_one();
        }""",
"""        if !reschedule {
            for (cond_var, waiting) in to_notify {
                let _waiting = waiting.lock();
                cond_var.notify_one();
            }
        }""","blocked sync callers are not told when the queue is handed to the pool: hangs when no pool thread is free")
mut("m23_future_sync_reserve_at_poll","C02","src/scheduler/sync_future.rs",
"""                    // Check the scheduler future (give it a chance to steal the thread)
                    if let Poll::Ready(Err(_)) = self.scheduler_future.poll_unpin(context) {""",
"""                    // Check the scheduler future (give it a chance to steal the thread)
                    if false {""","(control) future_sync no longer drives the queue when polled")
os.chdir('/repo')
assert subprocess.check_output(['git','status','--porcelain','--','src']).decode().strip()=="", "repo working tree not clean"
for name,(prop,path,old,new,note) in M.items():
    s=open(path).read()
    if s.count(old)!=1:
        print("SKIP",name,"anchor count",s.count(old)); continue
    open(path,'w').write(s.replace(old,new))
    d=subprocess.check_output(['git','diff','--','src']).decode()
    subprocess.check_call(['git','checkout','--','src'])
    open('/verif/mutants/%s.patch'%name,'w').write(d)
    open('/verif/mutants/%s.meta'%name,'w').write("property=%s\nnote=%s\n"%(prop,note))
print(len(M),"mutants written")
