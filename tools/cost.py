#!/usr/bin/env python3
import json,sys
e=json.load(open('/verif/evidence/%s.json'%sys.argv[1]))
it=e['coverage']['instances']
tot=sum(sum(i['executions_by_bound']) for i in it)
print(sys.argv[1],'total',tot,'wall',e['wall_s'],'instances',len(it))
agg={}
for i in it:
    agg.setdefault(i['scenario'],[0,0]); agg[i['scenario']][0]+=sum(i['executions_by_bound']); agg[i['scenario']][1]+=1
for k,v in sorted(agg.items(),key=lambda x:-x[1][0]): print('  %-22s %9d execs %4d instances'%(k,v[0],v[1]))
for i in sorted(it,key=lambda i:-sum(i['executions_by_bound']))[:int(sys.argv[2]) if len(sys.argv)>2 else 8]:
    print('   ',sum(i['executions_by_bound']),i['scenario'],i['cfg'],'PB',i['preemption_bound_target'])
