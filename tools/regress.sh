#!/bin/bash
# Re-validates the whole corpus: every seeded change and every own mutant must (a) apply, (b) be reported as a
# VIOLATION by the quick check of the property it breaks.  Modifies /repo temporarily: run nothing else meanwhile.
cd /verif
fail=0
run() { # name patch prop
  out=$(tools/run_mutant.sh "$2" "$3" 2>&1); if echo "$out" | grep -q "VIOLATION property=$3"; then echo "caught   $1 by $3"; else echo "MISSED   $1 by $3 :: $(echo "$out" | grep -E 'rc=|apply|MACHINERY' | head -2 | tr '\n' ' ')"; fail=1; fi
}
for d in seeded/*/; do id=$(basename $d); grep -q '"retired"' $d/meta.json && { echo "retired  $id"; continue; }; prop=$(python3 -c "import json;print(json.load(open('$d/meta.json'))['breaks_property'])"); run "$id" "/verif/$d/patch.diff" "$prop"; done
for m in mutants/*.patch; do name=$(basename $m .patch); prop=$(grep -h property= mutants/$name.meta | cut -d= -f2); case "$name" in m07*|m12*|m15*|n08*|n22*|n25*|n27*|n28*) continue;; esac; run "$name" "/verif/$m" "$prop"; done
exit $fail
