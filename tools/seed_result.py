#!/usr/bin/env python3
"""usage: tools/seed_result.py <seed-id> <text describing which checks caught it / what was strengthened>"""
import json,sys
p='/verif/seeded/%s/meta.json'%sys.argv[1]
m=json.load(open(p)); m['detected_by']=sys.argv[2:]; json.dump(m,open(p,'w'),indent=1)
