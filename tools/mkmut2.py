#!/usr/bin/env python3
"""Second batch of own mutants (probing for coverage gaps)."""
import subprocess,os
M={}
def mut(name, prop, path, old, new, note):
    M[name]=(prop,path,old,new,note)
mut("n01_no_retry_after_spawn","C03","src/scheduler/core.rs",
"""                // Try harder to schedule this task if a thread was created
                self.schedule_thread(core)""","""                // A thread was created: it will pick the task up
                true""","a freshly spawned pool thread is never told about the queue")
mut("n02_reschedule_ignores_waitingforpoll","C06","src/scheduler/core.rs",
"""                QueueState::WaitingForPoll(_) => {
                    // If the target thread gets stuck and stops draining the queue, race it to reschedule it on one of our threads if we can
                    true
                },""","""                QueueState::WaitingForPoll(_) => {
                    // The polling future will pick this up
                    false
                },""","a woken queue owned by a polling task is never offered to the pool")
mut("n06_sync_drain_no_reschedule","C03","src/scheduler/desync_scheduler.rs",
"""        queue.core.lock().expect("JobQueue core lock").state = QueueState::Idle;
        self.reschedule_queue(queue);

        // Get the final result by swapping it out of the mutex""","""        queue.core.lock().expect("JobQueue core lock").state = QueueState::Idle;

        // Get the final result by swapping it out of the mutex""","jobs queued behind a draining sync are never rescheduled")
mut("n08_pipe_no_backpressure_release","C12","src/pipe.rs",
"""            if let Some(item) = core.pending.pop_front() {
                // Value waiting at the start of the stream
                let notify_backpressure = core.backpressure_release_notify.take();

                (Poll::Ready(Some(item)), notify_backpressure)""","""            if let Some(item) = core.pending.pop_front() {
                // Value waiting at the start of the stream
                let notify_backpressure = if core.pending.len() == 0 { core.backpressure_release_notify.take() } else { None };

                (Poll::Ready(Some(item)), notify_backpressure)""","the producer is only released when the buffer is completely empty... (benign?)")
mut("n09_pipe_end_no_wake","C12","src/pipe.rs",
"""                                stream_core.closed = true;
                                stream_core.notify.take()
                            };
                            notify.map(|notify| notify.wake());

                            return false;""","""                                stream_core.closed = true;
                                stream_core.notify.take()
                            };
                            mem_drop(notify);

                            return false;""","consumer waiting for the end of the stream is never woken")
mut("n12_no_reap_dead_threads","C15","src/scheduler/core.rs",
"""        // Try to despawn any threads that have finished since the last time we were called
        self.remove_finished_threads();
""","""""","threads that died in a panic keep counting towards the maximum: capacity permanently reduced")
mut("n13_doublewaker_one_side","C07","src/scheduler/scheduler_future.rs",
"""        if let Some((waker1, waker2)) = to_wake {
            waker1.wake();
            waker2.wake();
        }""","""        if let Some((waker1, _waker2)) = to_wake {
            waker1.wake();
        }""","the polling task is not woken when its drained job wakes: only the queue is")
mut("n22_sync_pending_waits","C04","src/scheduler/desync_scheduler.rs",
"""                QueueState::Panicked            => RunAction::Panic,
                QueueState::Pending             => { core.state = QueueState::Running; RunAction::DrainOnThisThread },
                QueueState::Idle                => { 
                    core.state = QueueState::Running;
                    if core.queue.len() == 0 {
                        RunAction::Immediate 
                    } else {
                        RunAction::DrainOnThisThread
                    } 
                }
            }
        };

        match run_action {
            RunAction::Immediate            => self.sync_immediate(queue, job),""","""                QueueState::Panicked            => RunAction::Panic,
                QueueState::Pending             => RunAction::WaitForBackground,
                QueueState::Idle                => { 
                    core.state = QueueState::Running;
                    if core.queue.len() == 0 {
                        RunAction::Immediate 
                    } else {
                        RunAction::DrainOnThisThread
                    } 
                }
            }
        };

        match run_action {
            RunAction::Immediate            => self.sync_immediate(queue, job),""","(control) sync on a pending queue waits instead of draining")
mut("n25_pipe_drop_keeps_ref","C16","src/pipe.rs",
"""        // Run the drop function
        self.on_drop.take().map(|mut on_drop| {
            REFERENCE_CHUTE.desync(move |_| {
                (on_drop)()
            })
        });""","""        // The drop function runs when the pipe context goes away
        let _ = &self.on_drop;""","(control) strong reference released only when the context is destroyed")
mut("n27_wakequeue_skips_reschedule_when_awoken","C06","src/scheduler/wake_queue.rs",
"""                QueueState::WaitingForWake      => queue_core.state = QueueState::Idle,
                QueueState::Running             => queue_core.state = QueueState::AwokenWhileRunning,""","""                QueueState::WaitingForWake      => queue_core.state = QueueState::Idle,
                QueueState::Running             => { queue_core.state = QueueState::AwokenWhileRunning; return; },""","(benign?) no reschedule call for a running queue")
mut("n28_drop_sender_after_signal","C07","src/scheduler/scheduler_future.rs",
"""            // If no result has been generated, then mark the future as canceled
            if future_result.result.is_none() {""","""            // If no result has been generated, then mark the future as canceled
            if future_result.result.is_none() && future_result.waker.is_some() {""","a future whose operation was cancelled before anyone polled it never resolves")
mut("n29_future_desync_signal_before_done","C07","src/scheduler/desync_scheduler.rs",
"""                // Create the job when we're queued up
                let job = job();

                // Run the future
                let val = job.await;

                // Send to the channel
                send.signal(val);""","""                // Create the job when we're queued up
                let job = job();

                // Run the future
                let val = job.await;

                // Send to the channel
                send.signal(val);
                futures::future::ready(()).await;""","(behaviour preserving control)")
mut("n30_claim_keeps_schedule_entry_and_pending","C01","src/scheduler/core.rs",
"""            QueueState::Pending |
            QueueState::Idle    => {
                // Move the queue to the running state
                queue_core.state = QueueState::Running;

                // Remove from the schedule
                schedule.retain(|scheduled_queue| !Arc::ptr_eq(scheduled_queue, queue));

                true""","""            QueueState::Pending |
            QueueState::Idle    => {
                // Remove from the schedule
                schedule.retain(|scheduled_queue| !Arc::ptr_eq(scheduled_queue, queue));

                true""","a stealing sync waiter runs the queue without marking it Running: a pool thread or second waiter runs it too")
mut("n31_after_future_polled_outside_slot","C01","src/desync.rs",
"""        self.future_desync(move |data| {
            async move {
                let future_result = after.await;
                job(data, future_result)
            }.boxed()
        })""","""        self.future_desync(move |data| {
            async move {
                let future_result = after.await;
                job(data, future_result)
            }.boxed()
        })""","(identity)")
os.chdir('/repo')
assert subprocess.check_output(['git','status','--porcelain','--','src']).decode().strip()=="", "repo working tree not clean"
n=0
for name,(prop,path,old,new,note) in M.items():
    s=open(path).read()
    if s.count(old)!=1 or old==new:
        print("SKIP",name,"anchor count",s.count(old)); continue
    open(path,'w').write(s.replace(old,new))
    d=subprocess.check_output(['git','diff','--','src']).decode()
    subprocess.check_call(['git','checkout','--','src'])
    open('/verif/mutants/%s.patch'%name,'w').write(d)
    open('/verif/mutants/%s.meta'%name,'w').write("property=%s\nnote=%s\n"%(prop,note)); n+=1
print(n,"mutants written")
