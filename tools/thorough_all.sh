#!/bin/bash
# Runs the thorough tier of every property from a frozen copy of the current binaries (so that /repo and the engine
# may be edited meanwhile); evidence goes to /verif/evidence_thorough/.  usage: tools/thorough_all.sh [Cxx ...]
cd /verif && ./check C14 --tier quick >/dev/null 2>&1   # builds both binaries
d=/verif/engine/target/frozen-$$; mkdir -p $d/asan
cp /verif/engine/target/release/vcheck $d/vcheck
cp /verif/engine/target-asan/x86_64-unknown-linux-gnu/release/vcheck $d/asan/vcheck
props="$@"; [ -z "$props" ] && props="C05 C13 C16 C15 C12 C11 C10 C17 C09 C08 C07 C06 C04 C03 C02 C01 C14"
for p in $props; do
  VCHECK_EVIDENCE_DIR=/verif/evidence_thorough VCHECK_ASAN_EXE=$d/asan/vcheck $d/vcheck check $p --tier thorough 2>&1 | grep -E "thorough:|VIOLATION|MACHINERY|incomplete|scenario" | cut -c1-300
done
rm -rf $d
