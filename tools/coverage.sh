#!/bin/bash
# Driver-coverage measurement: which lines of /repo/src do the quick-tier scenarios execute at all?
# Builds the engine with -C instrument-coverage (nightly, separate target dir), runs the quick plans of the given properties
# (default: all but C14), merges the profiles and prints the per-file summary and every uncovered source line.
set -e
B=~/.rustup/toolchains/nightly-x86_64-unknown-linux-gnu/lib/rustlib/x86_64-unknown-linux-gnu/bin
T=/verif/engine/target-cov
cd /verif/engine
RUSTFLAGS="--cfg desync_verif -Aunexpected_cfgs -Aunused_imports -Adeprecated -C instrument-coverage" CARGO_TARGET_DIR=$T cargo +nightly build --release --offline >/dev/null 2>&1
rm -rf $T/prof; mkdir -p $T/prof
props="$@"; [ -z "$props" ] && props="C01 C02 C03 C04 C05 C06 C07 C08 C09 C10 C11 C12 C13 C15 C16 C17"
for p in $props; do
  LLVM_PROFILE_FILE=$T/prof/%p-%m.profraw VCHECK_QUICK_CAP_S=1800 VCHECK_EVIDENCE_DIR=$T/ev $T/release/vcheck check $p --tier quick 2>&1 | tail -1 | cut -c1-120
done
ls $T/prof | sed "s|^|$T/prof/|" > $T/list.txt
$B/llvm-profdata merge -sparse --num-threads=16 -f $T/list.txt -o $T/merged.profdata
$B/llvm-cov report $T/release/vcheck -instr-profile=$T/merged.profdata --ignore-filename-regex='(registry|rustc|vcheck|vsched|rustup)' 2>/dev/null | awk '{print $1, $8, $9, $10}'
$B/llvm-cov show $T/release/vcheck -instr-profile=$T/merged.profdata --ignore-filename-regex='(registry|rustc|vcheck|vsched|rustup)' --show-line-counts-or-regions 2>/dev/null > $T/cov.txt
python3 - <<'PY'
import re
cur=None; last=None
for l in open('/verif/engine/target-cov/cov.txt'):
    if l.startswith('/repo/src') and l.rstrip().endswith(':'):
        cur=l.strip()[:-1]; continue
    m=re.match(r'\s*(\d+)\|\s*(\d+)\|(.*)',l)
    if m and cur and int(m.group(2))==0 and m.group(3).strip() and not m.group(3).strip().startswith('//'):
        if cur!=last: print('==',cur); last=cur
        print('  %4s %s'%(m.group(1),m.group(3).rstrip()[:130]))
PY
rm -rf $T/prof $T/ev
