#!/bin/bash
# usage: tools/round12.sh Cxx "<needs>" : process the round-12 seed of property Cxx (confirm, store, run the quick check), then remove its worktree
p="$1"; needs="$2"
/verif/tools/process_seed.sh $p-m /tmp/wt12_$p $p "$needs" > /tmp/proc_$p.log 2>&1
grep -E "Summary|rc=|VIOLATION|scenario|stored|MACHINERY|apply" /tmp/proc_$p.log | cut -c1-330
if [ -s /verif/seeded/$p-m/patch.diff ]; then git -C /repo worktree remove --force /tmp/wt12_$p; fi
