#!/bin/bash
# usage: sweep.sh <extra-option> <PB> <Cxx...> : explores every non-prog instance of the properties' plans with the extra option appended
opt="$1"; pb="$2"; shift 2
for p in "$@"; do /verif/engine/target/release/vcheck plan $p | grep -v "^prog"; done | awk '{print $1, $2}' | sort -u | grep -v "$opt" | while read sc cfg; do
  out=$(timeout 120 /verif/engine/target/release/vcheck explore $sc "$cfg,$opt" $pb 2>&1 | grep -E "^ +[0-9]+ x|panicked|error" | head -2)
  n=$((n+1)); [ -n "$out" ] && echo "== $sc $cfg,$opt :: $out"
done
echo "sweep-done"
