#!/bin/bash
# usage: tools/run_mutant.sh <patch> <Cxx> [<Cyy> ...]   applies the patch to /repo, runs the quick checks, reverts
patch="$1"; shift
cd /repo || exit 2
if [ -n "$(git status --porcelain -- src)" ]; then echo "repo not clean"; exit 2; fi
git apply "$patch" || { echo "patch does not apply"; exit 2; }
for p in "$@"; do
  out=$(cd /verif && VCHECK_EVIDENCE_DIR=/verif/engine/target/mutant-evidence timeout 900 ./check "$p" --tier "${TIER:-quick}" 2>&1); rc=$?
  echo "== $(basename "$patch") $p rc=$rc"
  echo "$out" | grep -E "VIOLATION|MACHINERY|KNOWN|^  scenario|quick:|thorough:" | cut -c1-260 | head -8
done
git checkout -- src
cd /verif/engine && cargo build --release --offline >/dev/null 2>&1
