#!/bin/bash
# Audit of the "data-race-free between scheduling points" assumption (DESIGN 2.3 / 10): the repository's own test suite, hooks
# OFF, real free-running threads, under ThreadSanitizer (nightly, -Zbuild-std, offline).  Sampling, not exhaustive: it decides
# no property; a reported data race would mean the controlled scheduler's points are not sufficient.  Scratch worktree under
# /tmp, removed afterwards.   usage: tools/tsan_audit.sh
wt=/tmp/wt_tsan_$$
git -C /repo worktree add -q --detach $wt HEAD || exit 2
cd $wt
RUSTFLAGS="-Zsanitizer=thread" TSAN_OPTIONS="halt_on_error=0 report_signal_unsafe=0" CARGO_NET_OFFLINE=true \
  timeout 3000 cargo +nightly test -Zbuild-std --target x86_64-unknown-linux-gnu --offline --no-fail-fast -- --test-threads 4 > /tmp/tsan_audit.log 2>&1
echo "data race reports: $(grep -c 'ThreadSanitizer: data race' /tmp/tsan_audit.log)"
echo "other sanitizer warnings: $(grep 'WARNING: ThreadSanitizer' /tmp/tsan_audit.log | grep -v 'data race' | sort | uniq -c | tr '\n' ';')"
grep -E "^test result|^test .*FAILED" /tmp/tsan_audit.log
cd /; git -C /repo worktree remove --force $wt
