#!/bin/bash
# usage: tools/keep_seed.sh <seed-id> <worktree> <property> "<needs>" : stores a confirmed seeded change under /verif/seeded/<seed-id>/
id="$1"; wt="$2"; prop="$3"; needs="$4"
d=/verif/seeded/$id; mkdir -p "$d"
git -C "$wt" diff -- src > "$d/patch.diff"
cp "$wt/tests/seed_demo.rs" "$d/seed_demo.rs" 2>/dev/null || cp "$wt/SEED/seed_demo.rs" "$d/seed_demo.rs"
cp "$wt/SEED/notes.md" "$d/notes.md" 2>/dev/null
python3 - "$id" "$prop" "$needs" <<'PY'
import json,sys
id,prop,needs=sys.argv[1:4]
json.dump({"seed":id,"breaks_property":prop,"needs_to_manifest":needs,"origin":"independent sub-agent given only the property text and a scratch worktree","confirmed":"tools/confirm_seed.sh in the scratch worktree: suite passes with the change (only the known-bad test fails), demo fails with the change and passes without it","detected_by":[]},open('/verif/seeded/%s/meta.json'%id,'w'),indent=1)
PY
echo stored $d
