#!/bin/bash
# usage: tools/confirm_seed.sh <worktree> : re-confirms a seeded change in its scratch worktree:
#   suite passes with the change (except the two known-bad tests), demo fails with it, demo passes without it
wt="$1"; cd "$wt" || exit 2
git diff --quiet -- src && { echo "no src change in $wt"; exit 2; }
mv tests/seed_demo.rs /tmp/seed_demo_$$.rs 2>/dev/null
echo "--- suite with change"
cargo nextest run --workspace --no-fail-fast --offline --test-threads 8 2>&1 | grep -E "Summary|FAIL|TIMEOUT|SIGABRT" | sort -u
mv /tmp/seed_demo_$$.rs tests/seed_demo.rs
echo "--- demo with change (expected to FAIL)"
timeout 600 cargo nextest run --offline --test seed_demo --no-fail-fast 2>&1 | grep -E "Summary|FAIL|PASS|TIMEOUT" | sort -u | head
git diff -- src > /tmp/seedpatch_$$.diff; git apply -R /tmp/seedpatch_$$.diff
echo "--- demo without change (expected to PASS)"
timeout 600 cargo nextest run --offline --test seed_demo --no-fail-fast 2>&1 | grep -E "Summary|FAIL|PASS|TIMEOUT" | sort -u | head
git apply /tmp/seedpatch_$$.diff; rm -f /tmp/seedpatch_$$.diff
git diff --stat -- src | tail -1
