"""usage: tools/seed_prompt.py Cxx [/tmp/worktree]  -> prompt text for an independent adversarial sub-agent (property text + scratch worktree only)"""
import sys
pid=sys.argv[1]
import json
prop=None
for l in open('/verif/properties.jsonl'):
    p=json.loads(l)
    if p['id']==pid:
        prop='%s: %s\n\n%s\n\nQuantified: %s\n'%(p['id'],p['title'],p['statement'],p['quantifier']['text'])
wt=sys.argv[2] if len(sys.argv)>2 else '/tmp/wt_'+pid
print(f"""You are helping to evaluate a verification effort by playing the adversary. You work ONLY inside the scratch git worktree {wt} (a checkout of the Rust crate `desync`, Logicalshift/desync: `Desync<T>`, an ordered job-queue synchronisation type with its own thread-pool scheduler; sources under src/, tests under tests/ and in-crate). Do not read or write anything under /verif or /repo, and do not look at other /tmp/wt_* directories. There is no network; build with `--offline`.

Here is a semantic property the library is supposed to satisfy:

---
{prop}---

Your task: produce ONE realistic change to the library's source (under {wt}/src only; a few lines, the kind of slip a maintainer could make in a refactor or an 'optimisation') that BREAKS this property, while
  (a) the crate still compiles, and
  (b) the existing test suite still passes: run it with
      cd {wt} && cargo nextest run --workspace --no-fail-fast --offline --test-threads 8
      (fallback: cargo test --workspace --no-fail-fast --offline). Two tests are known to fail or flake on the UNCHANGED tree and do not count: scheduler::asynchronous::panicking_panics_with_future_queues and scheduler::asynchronous::async_only_runs_once. Run the suite at least twice with your change.
  (c) The breakage must need something specific to manifest: a particular thread interleaving, a multi-step sequence of operations, an unusual but legal input/configuration (e.g. few pool threads via scheduler().set_max_threads, a future dropped at a particular moment, a wake-up arriving at a particular instant), or two cooperating sites that each look fine alone. It must NOT be something that ordinary use exposes at once (if the existing tests fail with it, it is too blunt).
  (d) Provide a demonstration: a new test file {wt}/tests/seed_demo.rs (or a small program) that FAILS (assertion failure, hang detected by a timeout you implement, or panic) with your change and PASSES without it. If the manifestation is schedule dependent you may add sleeps/barriers/loops in the demo to make it reliable, or use a custom Stream/Future/Waker in the demo to control timing; say how reliable it is (e.g. fails 10/10). Verify both directions yourself (with the change: fails; without it: passes). IMPORTANT: never use `git stash` (the stash is shared with other checkouts of this repository and would collide); to remove your change temporarily do `git diff -- src > /tmp/mychange_{pid}.diff && git apply -R /tmp/mychange_{pid}.diff`, and `git apply /tmp/mychange_{pid}.diff` to restore it.
Lines in the source that start with `#[cfg(desync_verif)]` or `#[cfg(not(desync_verif))]` are build plumbing: leave them alone (that cfg is off in your builds).

When done, write into {wt}/SEED/ :
  patch.diff   = output of `git -C {wt} diff -- src` (ONLY the source change, not the demo)
  seed_demo.rs = copy of your demonstration test
  notes.md     = which lines you changed and why it breaks the property, what it needs in order to manifest, exactly which commands you ran and what you observed (suite results with the change, demo result with and without the change).
Leave the worktree with your source change applied and the demo test in place. Your final message should summarise notes.md in a few lines. Be economical: do not spend effort on anything else.""")
