#!/bin/bash
# usage: tools/process_seed.sh <seed-id> <worktree> <property> "<needs>" : confirm (suite + demo both ways), store, run the property's quick check against it
id="$1"; wt="$2"; prop="$3"; needs="$4"
/verif/tools/confirm_seed.sh "$wt" 2>&1 | tee /tmp/confirm_$id.log
/verif/tools/keep_seed.sh "$id" "$wt" "$prop" "$needs"
/verif/tools/run_mutant.sh /verif/seeded/$id/patch.diff $prop 2>&1 | tail -5 | cut -c1-400
