#!/bin/bash
# usage: tools/round10.sh Cxx "<needs>" : process the round-11 seed of property Cxx (confirm, store, run the quick check), then remove its worktree
p="$1"; needs="$2"
/verif/tools/process_seed.sh $p-k /tmp/wt11_$p $p "$needs" > /tmp/proc_$p.log 2>&1
grep -E "Summary|rc=|VIOLATION|scenario|stored|MACHINERY|apply" /tmp/proc_$p.log | cut -c1-330
if [ -s /verif/seeded/$p-k/patch.diff ]; then git -C /repo worktree remove --force /tmp/wt11_$p; fi
